"""C04 bounded stand-in: genomic ranges map to exactly the bins that cover them.

Three layers, all running the REAL library code against a plain-python recomputation from the bin table
(overlap(T,c,s,e) = {k in c : start[k] < e and end[k] > s}):

 A  function level, exhaustive over ALL small bin tables: core._rangequery.region_to_extent on the path chosen by the
    bin size that create() records (the real util.get_binsize) and, additionally, the variable-width path forced.
    The `h5` argument is a stand-in made of nested dicts of numpy arrays with the stored dtypes (the function only
    subscripts it); the faithfulness of that stand-in is itself a contract of layer B ("stored-index==model").
 G  util.GenomeSegmentation.fetch / util.bedslice (overlap selection on a bin frame), util.parse_region (resolution
    of open ends, ValueError exactly for unknown chromosome / e<s / s<0 / e>clen).
 B  end to end on real .cool files (every table is written to the SAME path, alternating a path store and an open
    h5py handle): Cooler.extent / offset, bins().fetch, pixels().fetch, matrix().fetch with one and two regions,
    for ALL (chrom, s, e), 0<=s<=e<=len, region given as tuple / numpy-int tuple / UCSC string / open-ended / bare
    name.

Non-empty range: exactly the overlapping bins (hence never a bin of another chromosome).  Empty range (s == e):
nothing, or the one bin that contains s (start <= s < end).

Signatures: contract + kind of input.  kind "recorded-binsize-untrue" = the table is stored with a fixed bin size b
although not every bin is [k*b, min((k+1)*b, len)) (property C20 / get_binsize; the fast path then does arithmetic
on a wrong size);  kind "empty-range-at-chromosome-end" = the empty range (c, len, len).  Everything else has the
bare contract name; an unexpected exception inside a library call appends ":exception".  The checks are NOT
weakened for these kinds.  `--replay <file>` re-runs the bin table of a recorded case and reports whether that case
still violates its contract.
"""
import sys, os
sys.path.insert(0, os.path.dirname(os.path.dirname(os.path.abspath(__file__))))
import contextlib
import hashlib
import itertools
import json
import shutil
import time
import warnings
warnings.filterwarnings("ignore")
import numpy as np
import pandas as pd
import h5py
import cooler
from cooler import util
from cooler.core import _rangequery as rq
from bounded.common import *

K_UNTRUE = "recorded-binsize-untrue"
K_END = "empty-range-at-chromosome-end"


class CappedBounded(Bounded):
    """Bounded + (1) at most `per_sig` recorded violations per signature, so that one (known) failure class cannot use
    up the violation slots and hide a different one (every failure is still counted, see failures_by_signature);
    (2) compact digests for the distinct-case count; (3) --replay support (see replay())."""

    def __init__(self, *a, **k):
        super().__init__(*a, **k)
        self.max_violations = 60
        self.per_sig = 2
        self.sig_count = {}
        self.fail_keys = set()
        self.replayed = None

    @staticmethod
    def key(contract, case):
        return json.dumps([contract, case], sort_keys=True, default=str)

    def ok(self, contract, case, nontrivial=True, sample=False):
        # as Bounded.ok, but keeps 8-byte digests (the thorough tier records millions of distinct cases)
        self.evaluations += 1
        self.contracts[contract] = self.contracts.get(contract, 0) + 1
        if nontrivial:
            self.nontrivial.add(int.from_bytes(hashlib.md5(repr((contract, case)).encode()).digest()[:8], "big"))
        if sample or (len(self.samples) < 6 and self.contracts[contract] in (1, 50)):
            self.samples.append({"contract": contract, "case": json.dumps(case, default=str)[:400]})

    def fail(self, contract, case, observed, expected, signature=None):
        sig = signature or contract
        self.sig_count[sig] = self.sig_count.get(sig, 0) + 1
        if self.replay_file:  # replaying: nothing is written, the outcome of the replayed case is reported by finish()
            self.evaluations += 1
            self.contracts[contract] = self.contracts.get(contract, 0) + 1
            self.fail_keys.add(self.key(contract, case))
            if self.replayed and self.key(contract, case) == self.replayed["key"]:
                self.replayed.update(observed=json.dumps(observed, default=str)[:1500], signature=sig)
            return
        if self.sig_count[sig] > self.per_sig:
            self.evaluations += 1
            self.contracts[contract] = self.contracts.get(contract, 0) + 1
            return
        super().fail(contract, case, observed, expected, sig)

    def finish(self):
        shutil.rmtree(self.tmp, ignore_errors=True)
        out = {"property": self.pid, "tier": self.tier, "seed": self.seed, "bound": self.bound, "rule": self.rule,
               "evaluations": self.evaluations, "distinct_nontrivial": len(self.nontrivial),
               "exhaustive": self.exhaustive, "samples": self.samples[:8], "violations": self.violations,
               "failures_by_signature": self.sig_count,
               "contracts_evaluated": self.contracts, "wall_s": round(time.time() - self.t0, 2)}
        if self.replayed is not None:
            r = self.replayed
            out["replay"] = {"file": self.replay_file, "contract": r["contract"], "case": r["case"],
                             "reproduced": r["key"] in self.fail_keys, "observed_now": r.get("observed"),
                             "signature_now": r.get("signature"), "expected": r.get("expected")}
            print("REPLAY %s: %s  case=%s\n  observed now: %s\n  expected: %s" % (
                "REPRODUCED (contract violated)" if out["replay"]["reproduced"] else "not reproduced (contract holds on this case now)",
                r["contract"], json.dumps(r["case"], default=str)[:600], r.get("observed"), r.get("expected")))
        print(json.dumps(out, default=str))
        return 0

    def load_replay(self):
        rec = json.load(open(self.replay_file))
        self.replayed = {"contract": rec["contract"], "case": rec["case"], "key": self.key(rec["contract"], rec["case"]),
                         "expected": rec.get("expected")}
        return rec["contract"], rec["case"]


def sig(contract, kind):
    return contract + (":" + kind if kind else "")


# ------------------------------------------------------------------ bin-table model (independent of the library)
class Tab:
    def __init__(self, name, chroms, positions=None):
        """chroms: [(name, [0, e1, ..., len])]; positions: optional {chrom: coordinates to enumerate} (default all)"""
        self.name = name
        self.chroms = [(c, [int(x) for x in e]) for c, e in chroms]
        self.names = [c for c, _ in self.chroms]
        self.clen = {c: e[-1] for c, e in self.chroms}
        self.rows, self.off = [], [0]
        for c, edges in self.chroms:
            for a, b in zip(edges[:-1], edges[1:]):
                self.rows.append((c, a, b))
            self.off.append(len(self.rows))
        self.n = len(self.rows)
        self.positions = positions

    def spec(self):
        return [[c, e] for c, e in self.chroms]

    def frame(self):
        return pd.DataFrame(self.rows, columns=["chrom", "start", "end"])

    def coords(self, ci):
        c, edges = self.chroms[ci]
        return list(range(edges[-1] + 1)) if self.positions is None else sorted(set(self.positions[c]))

    def cases(self):
        for ci in range(len(self.chroms)):
            P = self.coords(ci)
            for a in range(len(P)):
                for b in range(a, len(P)):
                    yield ci, P[a], P[b]

    def true_fixed(self, b):
        """every bin is [k*b, min((k+1)*b, len)) with k its rank in the chromosome"""
        for c, edges in self.chroms:
            L = edges[-1]
            for k, (s, e) in enumerate(zip(edges[:-1], edges[1:])):
                if s != k * b or e != min((k + 1) * b, L):
                    return False
        return True

    def overlap(self, ci, s, e):
        return [k for k in range(self.off[ci], self.off[ci + 1]) if self.rows[k][1] < e and self.rows[k][2] > s]

    def containing(self, ci, s):
        ks = [k for k in range(self.off[ci], self.off[ci + 1]) if self.rows[k][1] <= s < self.rows[k][2]]
        return ks[0] if ks else None

    def admissible(self, ci, s, e):
        """the index runs a fetch may select (empty runs are all the same selection: one representative)"""
        if s < e:
            ks = self.overlap(ci, s, e)
            assert ks and ks == list(range(ks[0], ks[-1] + 1))
            return [(ks[0], ks[-1] + 1)]
        k = self.containing(ci, s)
        return [(self.off[ci], self.off[ci])] + ([(k, k + 1)] if k is not None else [])

    def extent_ok(self, ci, s, e, lo, hi):
        if s < e:
            return (lo, hi) == self.admissible(ci, s, e)[0]
        if lo == hi:
            return self.off[ci] <= lo <= self.off[ci + 1]
        k = self.containing(ci, s)
        return k is not None and (lo, hi) == (k, k + 1)

    def expected_extent(self, ci, s, e):
        return self.admissible(ci, s, e)[0] if s < e else \
            {"any empty run within": [self.off[ci], self.off[ci + 1]], "or": self.admissible(ci, s, e)[1:]}

    def bin_rows(self, lo, hi):
        r = self.rows[lo:hi]
        return (list(range(lo, hi)), [x[0] for x in r], [x[1] for x in r], [x[2] for x in r])


def fixed_edges(L, b):
    return list(range(0, L, b)) + [L]


def compositions(L, max_bins=None):
    for k in range(L):
        if max_bins is not None and k + 1 > max_bins:
            break
        for cut in itertools.combinations(range(1, L), k):
            yield [0, *cut, L]


CH = ["chrA", "chrB", "chrC"]


# ------------------------------------------------------------------ layer A
class H5Stub(dict):
    """stand-in for the h5py group of ONE cooler: nested dicts of numpy arrays with the stored dtypes, plus the
    identity attributes of a group (a fresh identity per table, as a fresh file would have)"""
    _n = 0

    def __init__(self, d):
        super().__init__(d)
        H5Stub._n += 1
        self.name = "/"
        self.file = type("F", (), {"filename": f"<stand-in {H5Stub._n}>"})()


def layer_A(B, tab, family):
    bins = tab.frame()
    tcase = dict(layer="A", family=family, bins=tab.spec())
    try:
        recorded = util.get_binsize(bins)
    except Exception as ex:
        B.fail("get_binsize-does-not-raise", tcase, f"{type(ex).__name__}: {ex}", "a bin size or None")
        return
    h5 = H5Stub({"indexes": {"chrom_offset": np.array(tab.off, dtype=np.int64)},
          "bins": {"chrom": np.array([ci for ci in range(len(tab.chroms)) for _ in range(tab.off[ci + 1] - tab.off[ci])], dtype=np.int32),
                   "start": np.array([r[1] for r in tab.rows], dtype=np.int32),
                   "end": np.array([r[2] for r in tab.rows], dtype=np.int32)}})
    ids = {c: i for i, c in enumerate(tab.names)}
    paths = [("recorded", recorded, recorded is not None and not tab.true_fixed(int(recorded)))]
    if recorded is not None:
        paths.append(("variable-forced", None, False))
    nt = tab.n > 1
    for ci, s, e in tab.cases():
        c = tab.names[ci]
        at_end = s == e == tab.clen[c]
        contract = "region_to_extent==overlapping-bins" if s < e else "region_to_extent-empty-range-selects-at-most-containing-bin"
        for pname, b, untrue in paths:
            kind = K_UNTRUE if untrue else (K_END if at_end else "")
            case = dict(tcase, region=[c, s, e], binsize=None if b is None else int(b), path=pname)
            got = B.guarded(contract, case, lambda: tuple(rq.region_to_extent(h5, ids, (c, s, e), b)), sig(contract, kind) + ':exception')
            if got is None:
                continue
            ok = len(got) == 2 and tab.extent_ok(ci, s, e, int(got[0]), int(got[1]))
            B.check(contract, ok, case, [int(x) for x in got], tab.expected_extent(ci, s, e), nt, sig(contract, kind))
            if s < e and pname == "recorded":
                contract2 = "region_to_offset==first-overlapping-bin"
                o = B.guarded(contract2, case, lambda: rq.region_to_offset(h5, ids, (c, s, e), b), sig(contract2, kind) + ':exception')
                if o is not None:
                    B.check(contract2, int(o) == tab.admissible(ci, s, e)[0][0], case, int(o),
                            tab.admissible(ci, s, e)[0][0], nt, sig(contract2, kind))


def tables_A(B):
    """(family, Tab) for layer A"""
    if B.thorough:
        L2, L1, L3 = 7, 8, 4
    else:
        L2, L1, L3 = 5, 6, 3
    comps = {L: list(compositions(L)) for L in range(1, max(L1, L2, L3) + 1)}
    upto = lambda m: [e for L in range(1, m + 1) for e in comps[L]]
    for e in upto(L1):
        yield "all-1chrom", Tab("A1", [(CH[0], e)])
    for e1 in upto(L2):
        for e2 in upto(L2):
            yield "all-2chrom", Tab("A2", [(CH[0], e1), (CH[1], e2)])
    for e1 in upto(L3):
        for e2 in upto(L3):
            for e3 in upto(L3):
                yield "all-3chrom", Tab("A3", [(CH[0], e1), (CH[1], e2), (CH[2], e3)])
    # fixed-width grids up to chromosome length 12, widths 1..13 (smaller than, equal to, larger than the lengths)
    for L in range(1, 13):
        for b in range(1, 14):
            yield "fixed-1chrom", Tab("F1", [(CH[0], fixed_edges(L, b))])
    Ls = list(range(1, 13)) if B.thorough else [1, 2, 5, 6, 7, 12]
    for La in Ls:
        for Lb in Ls:
            for b in range(1, 14):
                yield "fixed-2chrom", Tab("F2", [(CH[0], fixed_edges(La, b)), (CH[1], fixed_edges(Lb, b))])
    # uniform with a LONGER last bin, alone and next to a truly fixed chromosome (both orders)
    for b in range(1, 5):
        for k in range(1, 4):
            for L in range(k * b + b + 1, 13):
                long_ = list(range(0, k * b + 1, b)) + [L]
                yield "uniform-longer-last", Tab("U1", [(CH[0], long_)])
                for Lb in (b, 2 * b + 1, 12):
                    yield "uniform-longer-last", Tab("U2", [(CH[0], long_), (CH[1], fixed_edges(Lb, b))])
                    yield "uniform-longer-last", Tab("U2", [(CH[0], fixed_edges(Lb, b)), (CH[1], long_)])


def layer_A_large(B, count):
    """seeded sampling beyond the bound: genome-scale coordinates on truly fixed grids and on variable tables"""
    r = B.rng
    for _ in range(count):
        chroms = []
        b = r.choice([1, 2, 3, 7, 10, 999, 1000, 1024, 5000, 10 ** 6, 2 ** 20 + 1])
        fixed = r.random() < 0.5
        pos = {}
        for ci in range(r.randint(1, 3)):
            nb = r.randint(1, 6)
            if fixed:
                L = (nb - 1) * b + r.randint(1, b)
                edges = fixed_edges(L, b)
            else:
                edges = [0] + sorted(r.sample(range(1, 2 ** 31 - 1), nb))
            chroms.append((CH[ci], edges))
            P = set()
            for x in edges:
                P.update(y for y in (x - 1, x, x + 1) if 0 <= y <= edges[-1])
            P.update(r.randint(0, edges[-1]) for _ in range(3))
            pos[CH[ci]] = P
        layer_A(B, Tab("L", chroms, pos), "sampled-genome-scale")


# ------------------------------------------------------------------ layer G
def frame_obs(df):
    return (df.index.tolist(), df["chrom"].astype(str).tolist(), df["start"].tolist(), df["end"].tolist())


def layer_G(B, tab, family):
    bins = tab.frame()
    cs = pd.Series(tab.clen)
    tcase = dict(layer="G", family=family, table=tab.name, bins=tab.spec())
    gs = B.guarded("GenomeSegmentation.fetch==overlapping-rows", tcase, lambda: util.GenomeSegmentation(cs, bins))
    grouped = bins.groupby("chrom", observed=True)
    nt = tab.n > 1
    for i, (ci, s, e) in enumerate(tab.cases()):
        c = tab.names[ci]
        reg = (c, s, e) if i % 2 == 0 else f"{c}:{s}-{e}"
        case = dict(tcase, region=[c, s, e], given=repr(reg))
        exp = [tab.bin_rows(lo, hi) for lo, hi in tab.admissible(ci, s, e)]
        for contract, fn in (("GenomeSegmentation.fetch==overlapping-rows", (lambda: gs.fetch(reg)) if gs is not None else None),
                             ("bedslice==overlapping-rows", lambda: util.bedslice(grouped, cs, reg))):
            if fn is None:
                continue
            got = B.guarded(contract, case, fn)
            if got is not None:
                obs = frame_obs(got)
                B.check(contract, obs in exp, case, obs, exp, nt)


def layer_parse_region(B, tab):
    cs = pd.Series(tab.clen)
    tcase = dict(layer="parse_region", table=tab.name, chromsizes=tab.clen)

    def run(reg, sizes, expect, case):
        try:
            got, exc = util.parse_region(reg, sizes), None
        except ValueError:
            got, exc = None, "ValueError"
        except Exception as ex:  # any other exception type is outside the contract
            got, exc = None, type(ex).__name__ + ": " + str(ex)
        if expect is None:
            B.check("parse_region-raises-ValueError-iff-unknown-or-out-of-bounds", exc == "ValueError", case,
                    exc or repr(got), "ValueError")
        else:
            ok = exc is None and tuple(got) == expect and all(isinstance(x, (int, np.integer)) for x in got[1:])
            B.check("parse_region==resolved-triple", ok, case, exc or repr(got), list(expect))

    for c in tab.names + ["nope"]:
        L = tab.clen.get(c)
        pts = [-1] + (tab.coords(tab.names.index(c)) + [L + 1] if L is not None else [0, 1, 2])
        vals = [None] + pts
        for s in vals:
            for e in vals:
                s0 = 0 if s is None else s
                e0 = L if e is None else e
                valid = L is not None and 0 <= s0 <= e0 <= L
                for form, reg in (("tuple", (c, s, e)),
                                  ("np.int64-tuple", (c, None if s is None else np.int64(s), None if e is None else np.int64(e))),
                                  ("list", [c, s, e])):
                    for sname, sizes in (("Series", cs), ("dict", tab.clen)):
                        if sname == "dict" and form != "tuple":
                            continue
                        run(reg, sizes, (c, s0, e0) if valid else None,
                            dict(tcase, region=[c, s, e], form=form, chromsizes_type=sname))
                # no chromosome-size table: only the ordering / sign checks remain, a missing end cannot be resolved
                valid_n = e is not None and 0 <= s0 <= e
                run((c, s, e), None, (c, s0, e) if valid_n else None, dict(tcase, region=[c, s, e], form="tuple", chromsizes_type=None))
        if L is None:
            run(c, cs, None, dict(tcase, string=c))
            run(f"{c}:0-1", cs, None, dict(tcase, string=f"{c}:0-1"))
            continue
        run(c, cs, (c, 0, L), dict(tcase, string=c))
        for s in pts[1:]:
            st = f"{c}:{s}-"
            run(st, cs, (c, s, L) if s <= L else None, dict(tcase, string=st))
            for e in pts[1:]:
                for st in sorted({f"{c}:{s}-{e}", f"{c}:{s:,}-{e:,}"}) + [f" {c}:{s} - {e} "]:
                    run(st, cs, (c, s, e) if s <= e <= L else None, dict(tcase, string=st))


# ------------------------------------------------------------------ layer B
def region_forms(c, s, e, L):
    forms = [("tuple", (c, s, e)), ("ucsc", f"{c}:{s:,}-{e:,}"), ("np.int64-tuple", (c, np.int64(s), np.int64(e)))]
    if e == L:
        forms += [("open-end-tuple", (c, s, None)), ("open-end-ucsc", f"{c}:{s}-")]
    if s == 0:
        forms += [("open-start-tuple", (c, None, e))]
    if s == 0 and e == L:
        forms += [("bare-name", c), ("name-None-None", (c, None, None))]
    return forms


def layer_B(B, tab, tidx, path, all_pairs=False):
    thorough = B.thorough
    bins = tab.frame()
    n = tab.n
    symm = tidx % 3 != 2
    A = 1 + np.arange(n * n, dtype=np.int64).reshape(n, n)
    knock = tidx % 2 == 1 and n > 2
    if knock:
        A[1, :] = 0
        A[:, 1] = 0
    pix = pixels_from_dense(A, symm)
    F = full_matrix(pix, n, symm)
    P1, P2, PC = pix["bin1_id"].tolist(), pix["bin2_id"].tolist(), pix["count"].tolist()
    use_handle = tidx % 2 == 1
    tcase = dict(layer="B", table=tab.name, tidx=tidx, bins=tab.spec(), symmetric_upper=symm,
                 pixels="count[i,j]=1+i*n+j" + (", row/col 1 empty" if knock else ""),
                 store="open h5py handle" if use_handle else "path", same_path_rewritten=tidx > 0, all_pairs=all_pairs)
    if B.guarded("create_cooler-does-not-raise", tcase, lambda: make_cooler(path, bins, pix, symm)) is None:
        return
    nt = n > 1
    with contextlib.ExitStack() as stack:
        if use_handle:
            clr = cooler.Cooler(stack.enter_context(h5py.File(path, "r")))
        else:
            clr = cooler.Cooler(path)
        b = clr.binsize
        with h5py.File(path, "r") as f:
            stored_off = f["indexes/chrom_offset"][:].tolist()
        inferred = util.get_binsize(bins)
        model_ok = (stored_off == tab.off and (b is None) == (inferred is None) and (b is None or int(b) == int(inferred))
                    and list(clr.chromsizes.index) == tab.names and clr.chromsizes.tolist() == [tab.clen[c] for c in tab.names])
        B.check("stored-index==model", model_ok, tcase,
                dict(chrom_offset=stored_off, binsize=b, chromsizes=clr.chromsizes.to_dict()),
                dict(chrom_offset=tab.off, binsize=inferred, chromsizes=tab.clen), nt)
        untrue = b is not None and not tab.true_fixed(int(b))
        tcase["recorded_binsize"] = None if b is None else int(b)
        R = list(tab.cases())
        lib_ext = {}
        # ---- pass 1: extent / offset in every spelling of the region
        for (ci, s, e) in R:
            c = tab.names[ci]
            L = tab.clen[c]
            kind = K_UNTRUE if untrue else (K_END if s == e == L else "")
            contract = "Cooler.extent==overlapping-bins" if s < e else "Cooler.extent-empty-range-selects-at-most-containing-bin"
            for fname, reg in region_forms(c, s, e, L):
                case = dict(tcase, region=[c, s, e], form=fname, given=repr(reg))
                got = B.guarded(contract, case, lambda: clr.extent(reg), sig(contract, kind) + ':exception')
                if got is None:
                    continue
                got = tuple(int(x) for x in got)
                if fname == "tuple":
                    lib_ext[(ci, s, e)] = got
                B.check(contract, len(got) == 2 and tab.extent_ok(ci, s, e, *got), case, list(got),
                        tab.expected_extent(ci, s, e), nt, sig(contract, kind))
            contract = "Cooler.offset==first-overlapping-bin"
            case = dict(tcase, region=[c, s, e])
            o = B.guarded(contract, case, lambda: clr.offset((c, s, e)), sig(contract, kind) + ':exception')
            if o is not None:
                o = int(o)
                okk = o == tab.admissible(ci, s, e)[0][0] if s < e else tab.off[ci] <= o <= tab.off[ci + 1]
                B.check(contract, okk, case, o, tab.expected_extent(ci, s, e), nt and s < e, sig(contract, kind))
        # ---- pass 2: fetches
        sel_b = clr.bins()
        sel_p = clr.pixels()
        sel_m = clr.matrix(balance=False)

        def pix_rows(lo, hi):
            idx = [t for t, r in enumerate(P1) if lo <= r < hi]
            return (idx, [P1[t] for t in idx], [P2[t] for t in idx], [PC[t] for t in idx])

        def mat_ok(got, adm1, adm2):
            return any(got.shape == (i1 - i0, j1 - j0) and np.array_equal(got, F[i0:i1, j0:j1])
                       for (i0, i1) in adm1 for (j0, j1) in adm2)

        for idx, (ci, s, e) in enumerate(R):
            c = tab.names[ci]
            L = tab.clen[c]
            kind = K_UNTRUE if untrue else (K_END if s == e == L else "")
            adm = tab.admissible(ci, s, e)
            forms = region_forms(c, s, e, L)
            # the spelling of the region rotates over the fetch kinds (every spelling goes through extent() in pass 1)
            for fname, reg in (forms[idx % len(forms)],):
                contract = "bins.fetch==overlapping-rows"
                case = dict(tcase, region=[c, s, e], form=fname, given=repr(reg))
                got = B.guarded(contract, case, lambda: sel_b.fetch(reg), sig(contract, kind) + ':exception')
                if got is not None:
                    obs = frame_obs(got)
                    exp = [tab.bin_rows(lo, hi) for lo, hi in adm]
                    B.check(contract, obs in exp, case, obs, exp, nt, sig(contract, kind))
            fname, reg = forms[(idx + 1) % len(forms)]
            case = dict(tcase, region=[c, s, e], form=fname, given=repr(reg))
            contract = "pixels.fetch==pixels-of-overlapping-rows"
            got = B.guarded(contract, case, lambda: sel_p.fetch(reg), sig(contract, kind) + ':exception')
            if got is not None:
                obs = (got.index.tolist(), got["bin1_id"].tolist(), got["bin2_id"].tolist(), got["count"].tolist())
                exp = [pix_rows(lo, hi) for lo, hi in adm]
                B.check(contract, obs in exp, case, obs, exp, nt, sig(contract, kind))
            fname, reg = forms[(idx + 2) % len(forms)]
            case = dict(tcase, region=[c, s, e], form=fname, given=repr(reg))
            contract = "matrix.fetch==block-of-overlapping-bins"
            got = B.guarded(contract, case, lambda: sel_m.fetch(reg), sig(contract, kind) + ':exception')
            if got is not None:
                B.check(contract, mat_ok(got, adm, adm), case, got.tolist(),
                        [F[lo:hi, lo:hi].tolist() for lo, hi in adm], nt, sig(contract, kind))
            # two regions: a deterministic partner (or every partner on the tiny tables)
            partners = range(len(R)) if all_pairs else [(idx * 7 + 3) % len(R)]
            for pj in partners:
                cj, s2, e2 = R[pj]
                c2 = tab.names[cj]
                L2 = tab.clen[c2]
                kind2 = K_UNTRUE if untrue else (K_END if (s == e == L or s2 == e2 == L2) else "")
                adm2 = tab.admissible(cj, s2, e2)
                reg1 = (c, s, e) if pj % 2 == 0 else f"{c}:{s}-{e}"
                reg2 = f"{c2}:{s2}-{e2}" if pj % 3 == 0 else (c2, s2, e2)
                case = dict(tcase, region=[c, s, e], region2=[c2, s2, e2], given=[repr(reg1), repr(reg2)])
                contract = "matrix.fetch2==block-of-overlapping-bins"
                got = B.guarded(contract, case, lambda: sel_m.fetch(reg1, reg2), sig(contract, kind2) + ':exception')
                if got is None:
                    continue
                B.check(contract, mat_ok(got, adm, adm2), case, got.tolist(),
                        [F[i0:i1, j0:j1].tolist() for (i0, i1) in adm for (j0, j1) in adm2], nt, sig(contract, kind2))
                # ... and the index-slice query on the two (library) extents; evaluated when those extents are themselves
                # admissible (otherwise the extent contract above has already failed on this input)
                x1, x2 = lib_ext.get((ci, s, e)), lib_ext.get((cj, s2, e2))
                if (all_pairs or thorough or idx % 3 == tidx % 3) and x1 and x2 and tab.extent_ok(ci, s, e, *x1) \
                        and tab.extent_ok(cj, s2, e2, *x2):
                    contract = "matrix.fetch2==index-slice-on-extents"
                    ref = B.guarded(contract, case, lambda: sel_m[x1[0]:x1[1], x2[0]:x2[1]])
                    if ref is not None:
                        B.check(contract, ref.shape == got.shape and np.array_equal(ref, got), case, got.tolist(),
                                ref.tolist(), nt)


def named_tables(big):
    """the shapes of the property's quantifier; `big` = the versions with chromosome lengths up to 12 everywhere"""
    T = lambda name, *ch: Tab(name, list(ch))
    out = [
        T("fixed5-short-last", ("chr1", fixed_edges(12, 5)), ("chr2", fixed_edges(7, 5))),
        T("fixed4-exact", ("chr1", fixed_edges(8, 4)), ("chr2", fixed_edges(4, 4))),
        T("uniform3-longer-last", ("chr1", [0, 3, 6, 10]), ("chr2", [0, 3, 5])),
        T("variable", ("chr1", [0, 3, 10, 12]), ("chr2", [0, 4, 5])),
        T("fixed5-last-1bp+short-chrom", ("chr1", fixed_edges(6, 5)), ("chrM", fixed_edges(3, 5))),
        T("fixed4-3chrom-unsorted-names", ("chr2", fixed_edges(9, 4)), ("chr10", fixed_edges(3, 4)), ("chr1", fixed_edges(6, 4))),
        T("fixed4+longer-one-bin-chrom", ("A", [0, 4, 8]), ("B", [0, 7])),
        T("fixed3-numeric-names", ("1", fixed_edges(7, 3)), ("2", fixed_edges(3, 3)), ("X", fixed_edges(2, 3))),
        T("one-bin-chroms", ("a", [0, 5]), ("b", [0, 5]), ("c", [0, 3])),
        T("variable-few-bins", ("chr1", [0, 1, 9]), ("chr2", [0, 8, 9])),
        T("single-chrom-fixed4", ("chrX", fixed_edges(11, 4))),
        T("single-bin-genome", ("chrX", [0, 6])),
        T("variable-uniform-within-chrom", ("A", [0, 2, 4, 6]), ("B", [0, 3, 6])),
        T("variable-1bp-bins", ("c1", [0, 1, 2, 7, 8, 9])),
        T("uniform2-last-longer-by-1", ("c", [0, 2, 4, 7])),
    ]
    if big:
        out += [
            T("fixed4-exact-12", ("chr1", fixed_edges(12, 4)), ("chr2", fixed_edges(8, 4))),
            T("uniform3-longer-last-12", ("chr1", [0, 3, 6, 12]), ("chr2", [0, 3, 5])),
            T("variable-12", ("chr1", [0, 3, 10, 12]), ("chr2", [0, 8, 9])),
            T("fixed5-last-1bp+short-chrom-11", ("chr1", fixed_edges(11, 5)), ("chrM", fixed_edges(3, 5))),
            T("fixed4-3chrom-unsorted-names-12", ("chr2", fixed_edges(9, 4)), ("chr10", fixed_edges(3, 4)), ("chr1", fixed_edges(12, 4))),
            T("fixed5+longer-one-bin-chrom-12", ("A", [0, 5, 10]), ("B", [0, 12])),
            T("fixed3-numeric-names-10", ("1", fixed_edges(10, 3)), ("2", fixed_edges(6, 3)), ("X", fixed_edges(5, 3))),
            T("one-bin-chroms-7", ("a", [0, 7]), ("b", [0, 7]), ("c", [0, 5])),
            T("variable-few-bins-12", ("chr1", [0, 1, 12]), ("chr2", [0, 11, 12])),
            T("variable-uniform-within-chrom-9", ("A", [0, 2, 4, 6, 8]), ("B", [0, 3, 6, 9])),
            T("variable-1bp-bins-12", ("c1", [0, 1, 2, 3, 9, 10, 11, 12])),
            T("fixed13-wider-than-all", ("chr1", fixed_edges(12, 13)), ("chr2", fixed_edges(12, 13))),
        ]
    return out


def tiny_tables():
    T = lambda name, *ch: Tab(name, list(ch))
    return [T("tiny-fixed1", ("a", fixed_edges(3, 1)), ("b", fixed_edges(2, 1))),
            T("tiny-fixed2", ("a", fixed_edges(4, 2)), ("b", fixed_edges(1, 2))),
            T("tiny-variable", ("v", [0, 1, 3]), ("w", [0, 2, 3]))]


def random_table(r, i):
    chroms = []
    for ci in range(r.randint(1, 3)):
        L = r.randint(1, 12)
        if r.random() < 0.4:
            edges = fixed_edges(L, r.randint(1, 6))
        else:
            k = r.randint(0, min(3, L - 1))
            edges = [0] + sorted(r.sample(range(1, L), k)) + [L]
        chroms.append((f"chr{ci + 1}", edges))
    return Tab(f"random-{i}", chroms)


def scaled_tables():
    """coordinates that need thousands separators in the UCSC spelling; positions around every edge"""
    out = []
    for name, chroms in (("kb-fixed5000", [("chr1", fixed_edges(12000, 5000)), ("chr2", fixed_edges(7000, 5000))]),
                         ("kb-variable", [("chr1", [0, 3000, 10000, 12000]), ("chr2", [0, 8000, 9001])]),
                         ("Mb-fixed", [("chr1", fixed_edges(12_345_678, 1_000_000)), ("chr2", fixed_edges(2_000_000, 1_000_000))])):
        pos = {}
        for c, edges in chroms:
            P = {0, edges[-1], edges[-1] // 2 + 17}
            for x in edges[:4] + edges[-3:]:
                P.update(y for y in (x - 1, x, x + 1) if 0 <= y <= edges[-1])
            pos[c] = P
        out.append(Tab(name, chroms, pos))
    return out


def find_table(case):
    """the table of a recorded case: by name among the fixed tables, else rebuilt from the recorded bins"""
    name = case.get("table")
    for t in named_tables(True) + tiny_tables() + scaled_tables():
        if t.name == name and ("bins" not in case or t.spec() == case["bins"]):
            return t
    chroms = [(c, e) for c, e in case["bins"]] if "bins" in case else [(c, [0, L]) for c, L in case["chromsizes"].items()]
    pos = None
    if max(e[-1] for _, e in chroms) > 64:  # sampled genome-scale table: the recorded coordinates and the edges +-1
        regs = [case[k] for k in ("region", "region2") if k in case]
        pos = {}
        for c, e in chroms:
            P = set()
            for x in e:
                P.update(y for y in (x - 1, x, x + 1) if 0 <= y <= e[-1])
            for r in regs:
                if r[0] == c:
                    P.update(v for v in r[1:] if v is not None and 0 <= v <= e[-1])
            pos[c] = P
    return Tab(name or "replay", chroms, pos)


def replay(B):
    """./check C04 --replay <file>: re-run the table of the recorded case and report whether that case still fails"""
    contract, case = B.load_replay()
    B.tier = "thorough"  # evaluate every contract on every case of the table
    tab = find_table(case)
    layer = case.get("layer")
    if layer == "A":
        layer_A(B, tab, case.get("family"))
    elif layer == "G":
        layer_G(B, tab, case.get("family"))
    elif layer == "parse_region":
        layer_parse_region(B, tab)
    elif layer == "B":
        path = B.path("c04.cool")
        if case.get("same_path_rewritten"):
            # in the recorded run other tables had been written to and queried at this very path before
            warm = Tab("warm-up", [("w1", [0, 2, 4, 5]), ("w2", [0, 1])])
            make_cooler(path, warm.frame(), pixels_from_dense(np.ones((warm.n, warm.n), dtype=np.int64), True), True)
            c = cooler.Cooler(path)
            for x in ("w1", "w2"):
                c.extent(x), c.bins().fetch(x), c.pixels().fetch(x), c.matrix(balance=False).fetch(x)
        layer_B(B, tab, case["tidx"], path, all_pairs=case.get("all_pairs", False))
    B.bound = "replay of one recorded case (all cases of its bin table are re-run)"
    return B.finish()


def main():
    B = CappedBounded("C04", "bounded/C04.py")
    if B.replay_file:
        return replay(B)
    th = B.thorough
    # ---- A
    nA = 0
    for fam, tab in tables_A(B):
        layer_A(B, tab, fam)
        nA += 1
    # ---- G
    nG = 0
    LG1, LG2 = (8, 5) if th else (6, 3)
    for L in range(1, LG1 + 1):
        for e1 in compositions(L):
            layer_G(B, Tab("G1", [(CH[0], e1)]), "all-1chrom")
            nG += 1
    comps = [e for L in range(1, LG2 + 1) for e in compositions(L)]
    for e1 in comps:
        for e2 in comps:
            layer_G(B, Tab("G2", [(CH[1], e1), (CH[0], e2)]), "all-2chrom")  # file order differs from name order
            nG += 1
    named = named_tables(th)
    for tab in named + tiny_tables():
        layer_G(B, tab, "named")
        layer_parse_region(B, tab)
    if th:
        for tab in scaled_tables():
            layer_G(B, tab, "scaled")
            layer_parse_region(B, tab)
    # ---- B
    path = B.path("c04.cool")
    tabs = [(t, False) for t in named] + [(t, True) for t in tiny_tables()]
    nrand = 0
    if th:
        tabs += [(t, False) for t in scaled_tables()]
        for Ls, b in (((12, 5), 3), ((7, 12), 6), ((6, 6), 2), ((1, 12), 4), ((12, 1), 5), ((9, 10), 9)):
            tabs.append((Tab(f"fixed{b}-{Ls[0]}-{Ls[1]}", [("chr1", fixed_edges(Ls[0], b)), ("chr2", fixed_edges(Ls[1], b))]), False))
        nrand = 40
        tabs += [(random_table(B.rng, i), False) for i in range(nrand)]
    for tidx, (tab, allp) in enumerate(tabs):
        layer_B(B, tab, tidx, path, all_pairs=allp)
    if th:
        layer_A_large(B, 400)
    B.exhaustive = not th
    B.bound = (f"A (function level, h5 stand-in): ALL bin tables with 1 chromosome of length<={8 if th else 6}, 2 chromosomes of length<="
               f"{7 if th else 5}, 3 chromosomes of length<={4 if th else 3} (every composition into bins), all fixed grids with 1-2 "
               f"chromosomes of length {'1..12' if th else '1..12 / {1,2,5,6,7,12}'} x width 1..13, uniform tables with a longer last bin "
               f"(length<=12) = {nA} tables x ALL (chrom,s,e) 0<=s<=e<=len x recorded path + forced variable path; "
               f"G: GenomeSegmentation.fetch/bedslice on ALL tables with 1 chromosome of length<={LG1} and 2 chromosomes of length<={LG2} ({nG}) + the named tables, "
               f"parse_region for all (s,e) in ({{None}} U [-1,len+1])^2 x known/unknown chromosome x tuple/np.int64/list/UCSC string forms; "
               f"B (real files): {len(tabs)} tables with <=3 chromosomes of length<=12 (fixed with short/1bp/exact last bin, longer last bin, "
               f"one-bin chromosomes, variable, single chromosome; symmetric-upper and square) x ALL (chrom,s,e) x all region spellings "
               f"for extent/offset, bins/pixels/matrix fetch, two-region fetch with one partner per range and ALL pairs of ranges on 3 tiny tables"
               + (f"; thorough adds seeded sampling beyond the bound: {nrand} random tables (<=3 chromosomes, length<=12) and 3 tables with "
                  f"kb/Mb coordinates end to end, 400 random genome-scale tables (coordinates < 2^31) at function level" if th else ""))
    B.rule = ("case = (bin table, region, spelling of the region, code path / store form); non-trivial when the table has more than one bin "
              "(a selection other than 'everything' exists); distinct by (contract, case)")
    return B.finish()


if __name__ == "__main__":
    sys.exit(main())
