"""C12 bounded stand-in: balanced reads of the REAL matrix selector (dense / sparse /
pixel output, Cooler.matrix + fetch + `cooler dump --balanced`) against an independent
pointwise recomputation  raw[r,c] * u[r] * u[c]  (u = w or 1/w) from raw h5py reads,
for ALL windows (i0<=i1, j0<=j1) of small coolers that carry several weight columns
with NaNs.

Reference (never goes through the library): the pixel datasets and the weight datasets
are read with h5py, the full matrix F is rebuilt by a python loop, and the expected
balanced matrix is F * u[:,None] * u[None,:]   (NaN exactly where a weight is NaN).
Comparison is F-real: identical NaN positions, finite entries equal to rtol 1e-12
(the library multiplies in a different order, so the last bit may differ).
"""
import sys, os
sys.path.insert(0, os.path.dirname(os.path.dirname(os.path.abspath(__file__))))
import io
import warnings
warnings.filterwarnings("ignore")
import numpy as np
import h5py
import cooler
from bounded.common import *

DIVISIVE_NAMES = {"KR", "VC", "VC_SQRT"}          # from the property statement
PRIMES = [3, 5, 7, 11, 13, 17, 19, 23, 29, 31, 37, 41]

# (balance argument, divisive_weights argument)
PRIMARY = [(True, None), ("KR", None)]
SECONDARY = [("weight", True), ("KR", False), ("w2", None), ("w2", True), ("VC", None), ("VC_SQRT", None),
             ("VC", False), ("weight", False), ("KR", True), ("weight", None)]
# (balance, divisive_weights, join)
PIXCFG = [(True, None, False), ("KR", None, False), ("w2", True, False), ("weight", None, True),
          ("VC_SQRT", None, False), ("KR", False, False), ("VC", None, False), ("w2", None, False), ("KR", None, True)]


# ------------------------------------------------------------------ scope helpers
def weight_columns(n):
    """distinct prime-based values per bin and per column (a product u[r]*u[c] identifies the
    unordered pair, a column mix-up changes every value); every bin is masked in some column,
    one column has no NaN, one has two"""
    p = PRIMES
    cols = {
        "weight": np.array([p[k] / 8.0 for k in range(n)]),
        "KR": np.array([p[(k + 2) % n] * 2.0 for k in range(n)]),
        "w2": np.array([p[n - 1 - k] / 16.0 for k in range(n)]),
        "VC": np.array([p[(k + 1) % n] * 4.0 for k in range(n)]),
        "VC_SQRT": np.array([p[(k + 3) % n] * 0.5 for k in range(n)]),
    }
    cols["weight"][1 % n] = np.nan
    cols["KR"][n - 1] = np.nan
    cols["w2"][0] = np.nan
    if n > 2:
        cols["VC"][n // 2] = np.nan
        cols["VC"][n - 2] = np.nan
    return cols


def random_weight_columns(n, nprng):
    cols = {}
    for name in ("weight", "KR", "w2", "VC", "VC_SQRT"):
        w = nprng.uniform(0.05, 4.0, size=n)
        w[nprng.random(n) < 0.3] = np.nan
        cols[name] = w
    return cols


def build(B, tag, bins, A, symm, wcols, chunk_note=None):
    b = bins.copy()
    for k, v in wcols.items():
        b[k] = v
    pix = pixels_from_dense(A, symm)
    return make_cooler(B.path(f"{tag}.cool"), b, pix, symm)


class Ref:
    """independent reference read with h5py only"""

    def __init__(self, path):
        with h5py.File(path, "r") as h:
            self.n = int(h["bins/start"].shape[0])
            self.symm = h.attrs.get("storage-mode", "symmetric-upper") == "symmetric-upper"
            self.b1 = h["pixels/bin1_id"][:].astype(np.int64)
            self.b2 = h["pixels/bin2_id"][:].astype(np.int64)
            self.cnt = h["pixels/count"][:]
            self.w = {k: h["bins"][k][:].astype(float) for k in h["bins"].keys()
                      if k not in ("chrom", "start", "end")}
            names = [x.decode() for x in h["chroms/name"][:]]
            self.chrom = [names[i] for i in h["bins/chrom"][:]]
            self.start = h["bins/start"][:].astype(np.int64)
            self.end = h["bins/end"][:].astype(np.int64)
            self.chromnames = names
        F = np.zeros((self.n, self.n))
        for r, c, v in zip(self.b1, self.b2, self.cnt):
            F[r, c] += v
            if self.symm and r != c:
                F[c, r] += v
        self.F = F
        self._bal = {}

    def u(self, name, divisive):
        w = self.w[name]
        with np.errstate(all="ignore"):
            return 1.0 / w if divisive else w

    def balanced_full(self, name, divisive):
        key = (name, divisive)
        if key not in self._bal:
            u = self.u(name, divisive)
            self._bal[key] = self.F * u[:, None] * u[None, :]
        return self._bal[key]

    def pixel_rows(self, win, name, divisive):
        i0, i1, j0, j1 = win
        m = (self.b1 >= i0) & (self.b1 < i1) & (self.b2 >= j0) & (self.b2 < j1)
        b1, b2, c = self.b1[m], self.b2[m], self.cnt[m]
        u = self.u(name, divisive)
        return b1, b2, c, c * u[b1] * u[b2]

    def region_window(self, chrom, s=None, e=None):
        """bins of `chrom` overlapping [s, e) (s<e) -- computed from the raw bin table"""
        idx = [k for k in range(self.n) if self.chrom[k] == chrom and
               (s is None or (self.end[k] > s and self.start[k] < e))]
        return idx[0], idx[-1] + 1


def resolve(balance, divisive):
    """spec: column name and convention selected by the caller's arguments"""
    name = "weight" if balance is True else balance
    if divisive is None:
        divisive = name in DIVISIVE_NAMES
    return name, bool(divisive)


def close(got, exp):
    got = np.asarray(got, dtype=float)
    exp = np.asarray(exp, dtype=float)
    if got.shape != exp.shape:
        return False
    gn, en = np.isnan(got), np.isnan(exp)
    if not np.array_equal(gn, en):
        return False
    return bool(np.allclose(got[~gn], exp[~en], rtol=1e-12, atol=0.0))


def winkind(win):
    i0, i1, j0, j1 = win
    if i0 == i1 or j0 == j1:
        return "empty-window"
    return "same-range" if (i0, i1) == (j0, j1) else "different-ranges"


def jl(a):
    return np.asarray(a, dtype=float).tolist()


class Checker:
    def __init__(self, B, path, ref, desc, chunksize=None):
        self.B, self.path, self.ref, self.desc = B, path, ref, desc
        self.clr = cooler.Cooler(path)
        self.kw = {} if chunksize is None else {"chunksize": chunksize}
        self.desc = dict(desc, chunksize=chunksize)
        self._sel = {}

    def sel(self, form, balance, divisive, join=False):
        key = (form, balance, divisive, join)
        if key not in self._sel:
            kw = dict(self.kw, balance=balance, divisive_weights=divisive)
            if form == "sparse":
                kw["sparse"] = True
            elif form == "pixels":
                kw.update(as_pixels=True, join=join)
            self._sel[key] = self.clr.matrix(**kw)
        return self._sel[key]

    # ---- the three output forms, given a window and a query thunk
    def dense(self, contract, win, cfg, query, extra=None):
        B, ref = self.B, self.ref
        name, div = resolve(*cfg)
        i0, i1, j0, j1 = win
        case = dict(self.desc, window=list(win), balance=cfg[0], divisive_weights=cfg[1], **(extra or {}))
        sig = f"{contract}:{winkind(win)}"
        exp = ref.balanced_full(name, div)[i0:i1, j0:j1]
        got = B.guarded(contract, case, query, signature=sig + ":exception")
        if got is None:
            return
        nt = exp.size > 0 and bool(np.any(ref.F[i0:i1, j0:j1] != 0) or np.any(np.isnan(exp)))
        B.check(contract, isinstance(got, np.ndarray) and close(got, exp), case, jl(got) if isinstance(got, np.ndarray) else repr(got),
                jl(exp), nt, sig)

    def sparse(self, contract, win, cfg, query, extra=None):
        B, ref = self.B, self.ref
        name, div = resolve(*cfg)
        i0, i1, j0, j1 = win
        case = dict(self.desc, window=list(win), balance=cfg[0], divisive_weights=cfg[1], **(extra or {}))
        sig = f"{contract}:{winkind(win)}"
        Fw = ref.F[i0:i1, j0:j1]
        exp = np.where(Fw != 0, ref.balanced_full(name, div)[i0:i1, j0:j1], 0.0)   # values on the stored support only
        got = B.guarded(contract, case, query, signature=sig + ":exception")
        if got is None:
            return
        coords = list(zip(got.row.tolist(), got.col.tolist()))
        okc = len(coords) == len(set(coords)) and set(coords) == set(zip(*[x.tolist() for x in np.nonzero(Fw)]))
        # entry-by-entry on the returned triples (a NaN must sit exactly on its own coordinate)
        oke = got.shape == exp.shape and okc and all(
            (np.isnan(v) and np.isnan(exp[r, c])) or (not np.isnan(v) and close([v], [exp[r, c]]))
            for r, c, v in zip(got.row.tolist(), got.col.tolist(), got.data.tolist()))
        B.check(contract, oke, case, dict(shape=list(got.shape), triples=[list(t) for t in zip(got.row.tolist(), got.col.tolist(), got.data.tolist())]),
                jl(exp), bool(np.any(Fw != 0)), sig)

    def pixels(self, contract, win, cfg, join, query, extra=None, ordered=True):
        B, ref = self.B, self.ref
        name, div = resolve(*cfg)
        case = dict(self.desc, window=list(win), balance=cfg[0], divisive_weights=cfg[1], join=join, **(extra or {}))
        sig = f"{contract}:{winkind(win)}"
        b1, b2, c, bal = ref.pixel_rows(win, name, div)
        got = B.guarded(contract, case, query, signature=sig + ":exception")
        if got is None:
            return
        try:
            if join:
                lut = {(ref.chrom[k], int(ref.start[k]), int(ref.end[k])): k for k in range(ref.n)}
                g1 = [lut[t] for t in zip(got["chrom1"].astype(str), got["start1"].astype(int), got["end1"].astype(int))]
                g2 = [lut[t] for t in zip(got["chrom2"].astype(str), got["start2"].astype(int), got["end2"].astype(int))]
                idcols_ok = "bin1_id" not in got.columns and "bin2_id" not in got.columns
            else:
                g1, g2 = got["bin1_id"].tolist(), got["bin2_id"].tolist()
                idcols_ok = True
            gc, gb = got["count"].tolist(), got["balanced"].to_numpy(dtype=float)
            ok = (idcols_ok and g1 == b1.tolist() and g2 == b2.tolist() and gc == c.tolist() and close(gb, bal))
            obs = [list(t) for t in zip(g1, g2, gc, gb.tolist())]
        except Exception as e:   # a malformed frame is a failure of the contract, with its case
            ok, obs = False, f"{type(e).__name__}: {e}; columns={list(got.columns)}"
        B.check(contract, ok, case, obs, [list(t) for t in zip(b1.tolist(), b2.tolist(), c.tolist(), bal.tolist())],
                len(b1) > 0, sig)

    # ---- window sweeps
    def sweep(self, windows, full=False, pixel_stride=1, thorough=False):
        """full: every (column, convention) setting in dense form; otherwise the two default-convention settings
        plus one rotating setting.  quick budget: sparse/pixel forms get a rotating subset of the settings"""
        nS, nP = len(SECONDARY), len(PIXCFG)
        for k0, win in enumerate(windows):
            i0, i1, j0, j1 = win
            k = k0 + k0 // 7       # rotation index (not aligned with the period of the inner window loops)
            if full:
                dcfgs = PRIMARY + SECONDARY
                scfgs = dcfgs if thorough else [PRIMARY[k % 2]] + [SECONDARY[(k + d) % nS] for d in (0, 3, 7)]
                pcfgs = (PIXCFG if self.ref.n <= 3 else [PIXCFG[(k + d) % nP] for d in range(5)]) if thorough else \
                    [PIXCFG[k % nP]] + ([PIXCFG[(k + 4) % nP]] if k0 % 2 else [])
            else:
                dcfgs = PRIMARY + [SECONDARY[k % nS]]
                scfgs = dcfgs if thorough else [PRIMARY[k % 2], SECONDARY[(k + 5) % nS]]
                pcfgs = [PIXCFG[k % nP]] if k0 % pixel_stride == 0 else []
            for cfg in dcfgs:
                self.dense("dense-balanced==raw*u[row]*u[col]", win, cfg,
                           lambda: self.sel("dense", *cfg)[i0:i1, j0:j1])
            for cfg in scfgs:
                self.sparse("sparse-balanced==raw*u[row]*u[col]-on-support", win, cfg,
                            lambda: self.sel("sparse", *cfg)[i0:i1, j0:j1])
            for (bal, div, join) in pcfgs:
                self.pixels("pixels-balanced==value*u[bin1]*u[bin2]", win, (bal, div), join,
                            lambda: self.sel("pixels", bal, div, join)[i0:i1, j0:j1])

    def missing(self, windows, balance, why):
        """asking for a weight column that is not stored must be an error in every output form"""
        B = self.B
        contract = "missing-weight-column-is-error"
        for k, win in enumerate(windows):
            i0, i1, j0, j1 = win
            for form in ("dense", "sparse", "pixels"):
                for div in ((None, True) if k % 2 == 0 else (None,)):
                    case = dict(self.desc, window=list(win), balance=balance, divisive_weights=div, form=form, why=why)
                    try:
                        got = self.sel(form, balance, div)[i0:i1, j0:j1]
                        raised = None
                    except Exception as e:
                        raised = e
                    B.check(contract, raised is not None, case,
                            "returned " + (repr(got)[:300] if raised is None else ""), "an exception (ValueError)",
                            True, f"{contract}:{form}:{why}")

    def regions(self):
        """a few genomic ranges per chromosome: whole, aligned sub-ranges, unaligned sub-ranges (all non-empty)"""
        ref = self.ref
        out = []
        for c in ref.chromnames:
            ks = [k for k in range(ref.n) if ref.chrom[k] == c]
            out.append((c, (c, None, None), ref.region_window(c)))
            for a in ks:
                for b in ks:
                    if a <= b and not (a == ks[0] and b == ks[-1]):
                        s, e = int(ref.start[a]), int(ref.end[b])
                        out.append((f"{c}:{s}-{e}", (c, s, e), ref.region_window(c, s, e)))
            s, e = int(ref.start[ks[0]]) + 1, int(ref.end[ks[-1]]) - 1
            if e > s:
                out.append((f"{c}:{s}-{e}", (c, s, e), ref.region_window(c, s, e)))
        return out

    def fetches(self, limit=None):
        regs = self.regions()
        k = 0
        for (s1, t1, w1) in regs:
            for (s2, t2, w2) in [(None, None, w1)] + regs:
                k += 1
                if limit and (k % limit):
                    continue
                win = (w1[0], w1[1], w2[0], w2[1])
                cfg = (PRIMARY + SECONDARY)[k % (len(PRIMARY) + len(SECONDARY))]
                args = ((s1,) if s2 is None else (s1, s2)) if k % 2 else ((t1,) if s2 is None else (t1, t2))
                extra = dict(fetch=[repr(a) for a in args])
                form = ("dense", "sparse", "pixels")[k % 3]
                if form == "dense":
                    self.dense("fetch-balanced==raw*u[row]*u[col]", win, cfg, lambda: self.sel("dense", *cfg).fetch(*args), extra)
                elif form == "sparse":
                    self.sparse("fetch-balanced==raw*u[row]*u[col]", win, cfg, lambda: self.sel("sparse", *cfg).fetch(*args), extra)
                else:
                    self.pixels("fetch-balanced==raw*u[row]*u[col]", win, cfg, False,
                                lambda: self.sel("pixels", cfg[0], cfg[1], False).fetch(*args), extra)

    # ---- CLI: cooler dump --balanced  (always the column "weight", multiplicative)
    def dump(self, runner, cli, limit=None):
        B, ref = self.B, self.ref
        contract = "dump-balanced==count*w[bin1]*w[bin2]"
        regs = self.regions()
        jobs = [([], (0, ref.n, 0, ref.n))]
        k = 0
        for (s1, _, w1) in regs:
            for (s2, _, w2) in [(None, None, w1)] + regs:
                k += 1
                if limit and (k % limit):
                    continue
                jobs.append((["-r", s1] + ([] if s2 is None else ["-r2", s2]), (w1[0], w1[1], w2[0], w2[1])))
        variants = [[], ["--join"], ["-k", "1"], ["-f"], ["--join", "-k", "2", "-f"], ["-k", "3"]]
        u = ref.u("weight", False)
        for q, (rargs, win) in enumerate(jobs):
            for v, var in enumerate(variants if q < 3 else [variants[q % len(variants)]]):
                fmt = [] if (q + v) % 7 == 3 else ["--float-format", ".17g"]      # default format is %g: 6 significant digits
                rtol = 1e-5 if not fmt else 1e-12
                args = ["dump", "-b", "-H"] + fmt + var + rargs + [self.path]
                case = dict(self.desc, args=args[:-1], window=list(win))
                sig = f"{contract}:{winkind(win)}"
                res = B.guarded(contract, case, lambda: runner.invoke(cli, args, catch_exceptions=False), signature=sig + ":exception")
                if res is None:
                    continue
                i0, i1, j0, j1 = win
                if "-f" in var and ref.symm:
                    rr, cc = np.nonzero(ref.F[i0:i1, j0:j1])
                    e1, e2 = rr + i0, cc + j0
                    ec = ref.F[e1, e2]
                else:
                    e1, e2, ec, _ = ref.pixel_rows(win, "weight", False)
                eb = ec * u[e1] * u[e2]
                exp = sorted(zip(e1.tolist(), e2.tolist(), [float(x) for x in ec]))
                try:
                    if res.exit_code != 0:
                        raise RuntimeError(f"exit code {res.exit_code}: {res.output[-300:]}")
                    if res.output.strip() == "":
                        # no record selected: dump prints nothing at all (not even the -H header); that is "no rows" here,
                        # whether the header should appear is not part of C12
                        df = pd.DataFrame(columns=["bin1_id", "bin2_id", "chrom1", "start1", "end1", "chrom2", "start2", "end2",
                                                   "count", "balanced"])
                    else:
                        df = pd.read_csv(io.StringIO(res.output), sep="\t")
                    if "--join" in var:
                        lut = {(ref.chrom[t], int(ref.start[t]), int(ref.end[t])): t for t in range(ref.n)}
                        g1 = [lut[t] for t in zip(df["chrom1"].astype(str), df["start1"].astype(int), df["end1"].astype(int))]
                        g2 = [lut[t] for t in zip(df["chrom2"].astype(str), df["start2"].astype(int), df["end2"].astype(int))]
                    else:
                        g1, g2 = df["bin1_id"].astype(int).tolist(), df["bin2_id"].astype(int).tolist()
                    gc = df["count"].astype(float).tolist()
                    gb = df["balanced"].to_numpy(dtype=float)
                    order = sorted(range(len(g1)), key=lambda t: (g1[t], g2[t], gc[t]))
                    rows = [(g1[t], g2[t], gc[t]) for t in order]
                    eorder = sorted(range(len(exp)), key=lambda t: (int(e1[t]), int(e2[t]), float(ec[t])))
                    gbs, ebs = gb[order] if len(order) else gb, eb[eorder] if len(eorder) else eb
                    gn, en = np.isnan(gbs), np.isnan(ebs)
                    ok = rows == exp and np.array_equal(gn, en) and bool(np.allclose(gbs[~gn], ebs[~en], rtol=rtol, atol=0))
                    obs = [list(r) + [float(b)] for r, b in zip(rows, gbs)]
                except Exception as e:
                    ok, obs = False, f"{type(e).__name__}: {e}"
                    ebs = eb
                B.check(contract, ok, case, obs, [list(r) for r in exp] + [jl(ebs)], len(exp) > 0, sig)


def no_weight_cooler(B, tag, bins, A, symm, wcols):
    """a cooler that has KR and w2 but NO column called 'weight'"""
    w = {k: v for k, v in wcols.items() if k in ("KR", "w2")}
    return build(B, tag, bins, A, symm, w)


def main():
    B = Bounded("C12", "bounded/C12.py")
    from cooler.cli import cli
    from click.testing import CliRunner
    runner = CliRunner()
    tabs = dict(bin_tables())
    if B.thorough:
        sweep_tables = ["fixed10-short-last", "fixed10-exact", "variable", "one-bin-chroms", "single-chrom-fixed"]
        full_tables = ["one-bin-chroms", "fixed10-short-last"]
        mats = ["dense", "sparse-empty-row"]
    else:
        sweep_tables = ["fixed10-short-last"]
        full_tables = ["one-bin-chroms"]
        mats = ["dense", "sparse-empty-row"]
    per_window = ("`full` coolers: dense+sparse with ALL 12 (column, divisive_weights in {None,True,False}) settings and pixel output with ALL 9 "
                  "(column, convention, join) settings (5 rotating of the 9 on the 5-bin table); elsewhere dense with balance in {True,'KR'} + 1 rotating setting, sparse with 2 and pixel "
                  "output with 1 rotating setting (every window on the symmetric dense-matrix cooler, every 2nd on the symmetric sparse-matrix "
                  "one, every 3rd in square mode)"
                  if B.thorough else
                  "`full` coolers: dense with ALL 12 (column, divisive_weights in {None,True,False}) settings, sparse with 4 and pixel output "
                  "with 1-2 rotating settings; elsewhere dense with balance in {True,'KR'} + 1 rotating setting, sparse with 2 and pixel output "
                  "with 1 rotating (column, convention, join) setting (every window on the symmetric dense-matrix cooler, every 2nd on the "
                  "square one, every 3rd on the sparse-matrix cooler)")
    B.bound = (
        "ALL windows (i0<=i1, j0<=j1) in [0,n]^4 of coolers with 5 weight columns (weight, KR, VC, VC_SQRT, w2; NaN in 0-2 bins each): "
        f"tables {sweep_tables} (n<=6 bins) x matrices {mats} x symmetric-upper/square, `full` = tables {full_tables} with the dense matrix (5-bin table: symmetric-upper only); "
        f"per window: {per_window}; "
        "missing column (unknown name; balance=True/'weight' on a cooler without 'weight') x 3 forms; "
        "fetch(region[,region2]) for whole/aligned/unaligned non-empty ranges; `cooler dump -b` x {plain, --join, -k 1/2/3, -f} x -r/-r2 ranges"
        + ("; PLUS seeded sampling: 8 random 7-9 bin coolers with random weights/NaN masks, 200 random windows each" if B.thorough else ""))
    B.rule = ("case = (table, matrix, storage mode, chunksize, window, balance, divisive_weights, output form[, join / fetch args / CLI args]); "
              "non-trivial when the window holds a stored value or a masked bin (dense), a stored value (sparse), a stored record (pixels/dump); "
              "distinct by case")
    B.exhaustive = not B.thorough
    rng = B.rng

    def coolers_for(tname, which):
        bins = tabs[tname]
        n = len(bins)
        wc = weight_columns(n)
        M = dict(matrices(n, random.Random(1000 + n), 5))
        for mname in which:
            for symm in (True, False):
                if mname == "sparse-empty-row" and not symm and not B.thorough and tname != "one-bin-chroms":
                    continue   # quick budget: 3 coolers on the 5-bin table
                cs = 3 if (mname == "dense" and symm) else None     # several chunks per query on the fullest cooler
                p = build(B, f"{tname}-{mname}-{symm}", bins, M[mname], symm, wc)
                yield Checker(B, p, Ref(p), dict(table=tname, matrix=mname, symmetric_upper=symm), cs), bins, M[mname], symm, wc

    # 1. full settings x all windows on the small table(s)
    for tname in full_tables:
        for ck, bins, A, symm, wc in coolers_for(tname, ["dense"]):
            n = ck.ref.n
            if n > 3 and not symm:
                continue      # thorough budget: the 5-bin table gets all settings in symmetric-upper mode only
            ck.sweep(list(all_windows(n)), full=True, thorough=B.thorough)
            ck.missing(list(all_windows(n)), "nope", "unknown-name")
            ck.fetches()
            ck.dump(runner, cli)
    # 2. all windows, rotating secondary settings
    for tname in sweep_tables:
        for ck, bins, A, symm, wc in coolers_for(tname, mats):
            n = ck.ref.n
            if tname in full_tables and ck.desc["matrix"] == "dense" and (symm or n <= 3):
                continue      # already swept with all settings in step 1
            if B.thorough:
                stride = (1 if ck.desc["matrix"] == "dense" else 2) if symm else 3
            else:
                stride = 1 if (ck.desc["matrix"] == "dense" and symm) else (2 if ck.desc["matrix"] == "dense" else 3)
            ck.sweep(list(all_windows(n)), full=False, pixel_stride=stride)
            wins = list(all_windows(n))
            ck.missing(wins[:: max(1, len(wins) // 12)], "nope", "unknown-name")
            ck.missing(wins[3:: max(1, len(wins) // 5)], "Weight", "wrong-case-name")
            ck.fetches(limit=3)
            ck.dump(runner, cli, limit=4 if ck.desc["matrix"] == "dense" else (5 if B.thorough else 9))
    # 3. cooler without a column named 'weight'
    for tname in (sweep_tables if B.thorough else ["one-bin-chroms", "fixed10-short-last"]):
        bins = tabs[tname]
        n = len(bins)
        A = dict(matrices(n, random.Random(1000 + n), 5))["dense"]
        for symm in (True, False):
            p = no_weight_cooler(B, f"now-{tname}-{symm}", bins, A, symm, weight_columns(n))
            ck = Checker(B, p, Ref(p), dict(table=tname, matrix="dense", symmetric_upper=symm, columns=["KR", "w2"]))
            wins = list(all_windows(n))
            sub = wins if n <= 3 else wins[:: max(1, len(wins) // 20)]
            ck.missing(sub, True, "no-weight-column")
            ck.missing(sub[::3], "weight", "no-weight-column")
            ck.missing(sub[::3], "VC", "no-such-4DN-column")
            # the columns that ARE there still work
            for k, win in enumerate(sub):
                i0, i1, j0, j1 = win
                cfg = [("KR", None), ("w2", None), ("KR", False), ("w2", True)][k % 4]
                ck.dense("dense-balanced==raw*u[row]*u[col]", win, cfg, lambda: ck.sel("dense", *cfg)[i0:i1, j0:j1])
            # CLI: --balanced without weights is an error, not an unbalanced dump
            for rargs in ([], ["-r", ck.ref.chromnames[0]], ["--join"]):
                args = ["dump", "-b"] + rargs + [p]
                case = dict(ck.desc, args=args[:-1])
                res = B.guarded("dump-missing-weight-is-error", case, lambda: runner.invoke(cli, args))
                if res is not None:
                    B.check("dump-missing-weight-is-error", res.exit_code != 0, case,
                            dict(exit_code=res.exit_code, output=res.output[:300]), "non-zero exit status", True,
                            "dump-missing-weight-is-error")
    # 4. thorough: seeded sampling beyond the bound
    if B.thorough:
        for t in range(8):
            nchrom = rng.choice([1, 2, 3])
            n = rng.choice([7, 8, 9])
            cuts = sorted(rng.sample(range(1, n), nchrom - 1)) if nchrom > 1 else []
            sizes = [b - a for a, b in zip([0] + cuts, cuts + [n])]
            rows = []
            for ci, nb in enumerate(sizes):
                if t % 2:
                    edges = [0] + sorted(rng.sample(range(1, 100), nb))
                else:
                    edges = [10 * i for i in range(nb)] + [10 * nb - rng.choice([0, 3])]
                rows += [(f"s{ci}", a, b) for a, b in zip(edges[:-1], edges[1:])]
            bins = pd.DataFrame(rows, columns=["chrom", "start", "end"])
            symm = bool(t % 3)
            A = B.nprng.integers(1, 50, size=(n, n)) * (B.nprng.random((n, n)) < 0.5)
            wc = random_weight_columns(n, B.nprng)
            p = build(B, f"rand-{t}", bins, A, symm, wc)
            ck = Checker(B, p, Ref(p), dict(random_cooler=t, seed=B.seed, n=n, symmetric_upper=symm, chrom_bins=sizes),
                         rng.choice([None, 1, 2, 5]))
            wins = []
            for _ in range(200):
                i0, i1 = sorted((rng.randrange(n + 1), rng.randrange(n + 1)))
                if rng.random() < 0.25:
                    j0, j1 = i0, i1
                else:
                    j0, j1 = sorted((rng.randrange(n + 1), rng.randrange(n + 1)))
                wins.append((i0, i1, j0, j1))
            ck.sweep(wins, full=False, thorough=True)
            ck.fetches(limit=5)
            ck.dump(runner, cli, limit=9)
    return B.finish()


if __name__ == "__main__":
    sys.exit(main())
