"""C10 bounded stand-in: the real balance_cooler on small symmetric coolers; the
returned weights are judged against the PROPERTY on the dense matrix:

  * flat-rowsums-within-bound: rows of W.A_f.W (A_f = the filtered symmetric
    matrix, main diagonal counted once, W = returned weights, NaN -> 0) over the
    retained bins lie in [1/(1+d/m), 1/(1-d/m)] (x m when rescaling is off), with
    d = sqrt(N.var), m = scale as REPORTED in stats; per chromosome in cis-only
    mode, on the inter-chromosomal part in trans-only mode;
  * nan-set==documented-exclusions: NaN exactly on the bins excluded by min_nnz,
    min_count, MAD-max, blacklist, zero/NaN initial weight, or left without data;
  * retained-weights-finite-positive;
  * weights+stats==dense-procedure: coincidence with the documented iterative
    correction carried out on the dense matrix (C10(iii));
  * converged-flag==(var<tol), stored-weights==returned.

Reading used where the statement is silent (plan C10(ii)): the thresholds
(min_nnz, min_count, MAD) are evaluated on the matrix after the diagonal filter
(and after the cis restriction in cis-only mode); in trans-only mode on the whole
diagonal-filtered matrix.  That is what the library does and the statement does
not fix it, so it is not checked against the stricter "trans data only" reading.

Failures are classified (never silenced): when a failing check would pass under
an identifiable deviating convention the signature names that convention."""
import sys, os
sys.path.insert(0, os.path.dirname(os.path.dirname(os.path.abspath(__file__))))
import hashlib
import json
import itertools
import math
import shutil
import traceback
import warnings

warnings.filterwarnings("ignore")
import numpy as np
import pandas as pd
import h5py
import cooler
from cooler._balance import balance_cooler
from bounded.common import *

np.seterr(all="ignore")
SLACK = 1e-9
MAXREC_PER_SIG = 2


# ------------------------------------------------------------------ collector
class Rec:
    """picklable stand-in for Bounded inside (worker) task evaluation"""

    def __init__(self):
        self.counts = {}
        self.nt = set()
        self.first = {}
        self.fails = []
        self.sigs = {}

    def ok(self, contract, case, nontrivial=True):
        self.counts[contract] = self.counts.get(contract, 0) + 1
        if nontrivial:
            self.nt.add(hashlib.md5(repr((contract, case)).encode()).hexdigest())
        if contract not in self.first:
            self.first[contract] = (case, nontrivial)

    def fail(self, contract, case, observed, expected, signature=None):
        sig = signature or contract
        self.sigs[sig] = self.sigs.get(sig, 0) + 1
        if self.sigs[sig] <= MAXREC_PER_SIG:
            self.fails.append((contract, case, observed, expected, sig))
        else:
            self.counts[contract] = self.counts.get(contract, 0) + 1

    def check(self, contract, cond, case, observed=None, expected=None, nontrivial=True, signature=None):
        if cond:
            self.ok(contract, case, nontrivial)
        else:
            self.fail(contract, case, observed, expected, signature)
        return bool(cond)

    def guarded(self, contract, case, fn, signature=None):
        try:
            return fn()
        except Exception as e:
            self.fail(contract, case, f"{type(e).__name__}: {e}\n{traceback.format_exc(limit=4)}",
                      "no exception", signature or (contract + ":exception"))
            return None


def merge(B, rec, state):
    """fold a Rec into the Bounded instance; at most MAXREC_PER_SIG replay files per signature"""
    for c, (case, nt) in rec.first.items():
        if c not in state["sampled"]:
            state["sampled"].add(c)
            B.ok(c, case, nt, sample=len(B.samples) < 7)
            rec.counts[c] -= 1
    for c, k in rec.counts.items():
        B.contracts[c] = B.contracts.get(c, 0) + k
        B.evaluations += k
    B.nontrivial |= rec.nt
    kept = {}
    for contract, case, obs, exp, sig in rec.fails:
        kept[sig] = kept.get(sig, 0) + 1
        if state["recorded"].get(sig, 0) < MAXREC_PER_SIG:
            state["recorded"][sig] = state["recorded"].get(sig, 0) + 1
            B.fail(contract, case, obs, exp, sig)
        else:
            B.contracts[contract] = B.contracts.get(contract, 0) + 1
            B.evaluations += 1
    for sig, k in rec.sigs.items():
        state["failcount"][sig] = state["failcount"].get(sig, 0) + k


# ------------------------------------------------------------------ inputs
def layout_bins(sizes):
    rows = []
    for ci, k in enumerate(sizes):
        for b in range(k):
            rows.append((f"c{ci + 1}", b * 10, b * 10 + 10))
    return pd.DataFrame(rows, columns=["chrom", "start", "end"])


def chrom_ids(sizes):
    return np.repeat(np.arange(len(sizes)), sizes)


def offsets(sizes):
    return np.concatenate([[0], np.cumsum(sizes)]).astype(int)


def build_matrix(spec):
    """full symmetric matrix (main diagonal once) from a JSON-able spec"""
    n = spec["n"]
    F = np.zeros((n, n), dtype=np.int64)
    if spec["kind"] == "upper":
        it = iter(spec["vals"])
        for i in range(n):
            for j in range(i, n):
                F[i, j] = F[j, i] = next(it)
    elif spec["kind"] == "rand":
        g = np.random.default_rng(spec["seed"])
        U = (g.random((n, n)) < spec["density"]) * g.integers(1, spec["maxval"] + 1, (n, n))
        band = np.abs(np.subtract.outer(np.arange(n), np.arange(n)))
        U = U + (band <= spec.get("band", 0)) * g.integers(1, spec["maxval"] + 1, (n, n)) * (spec.get("band", -1) >= 0)
        U = np.triu(U)
        F = U + np.triu(U, 1).T
        for i in spec.get("empty", []):
            F[i, :] = 0
            F[:, i] = 0
        for i in spec.get("diagonly", []):
            F[i, :] = 0
            F[:, i] = 0
            F[i, i] = 3
        for i in spec.get("weak", []):
            keep = F[i, i]
            F[i, :] = (F[i, :] > 0) * 1
            F[:, i] = F[i, :]
            F[i, i] = min(keep, 1)
        for i in spec.get("strong", []):
            F[i, :] *= 7
            F[:, i] = F[i, :]
    else:
        raise ValueError(spec)
    return F


def upper_spec(F):
    n = len(F)
    return {"kind": "upper", "n": n, "vals": [int(F[i, j]) for i in range(n) for j in range(i, n)]}


def make_x0(kind, n):
    if kind is None:
        return None
    x = np.ones(n, dtype=float)
    if kind == "ones":
        return x
    if kind == "rand":
        return np.array([0.5 + ((7 * i + 3) % 5) / 4.0 for i in range(n)])
    if kind == "zero@1":
        x[min(1, n - 1)] = 0.0
        return x
    if kind == "nan@last":
        x[n - 1] = np.nan
        return x
    if kind == "rand+zero@0+nan@2":
        x = np.array([0.5 + ((7 * i + 3) % 5) / 4.0 for i in range(n)])
        x[0] = 0.0
        x[min(2, n - 1)] = np.nan
        return x
    raise ValueError(kind)


def make_blacklist(kind, n):
    if kind is None:
        return None
    if kind == "[]":
        return []
    if kind == "[1]":
        return [min(1, n - 1)]
    if kind == "[0,last]":
        return sorted({0, n - 1})
    if kind == "array[2]":
        return np.array([min(2, n - 1)])
    raise ValueError(kind)


BASE = dict(mode="gw", ig=1, nnz=1, cnt=0, mad=0, bl=None, tol=1e-5, maxit=25, x0=None, rescale=True, cs=None)


def O(**kw):
    o = dict(BASE)
    o.update(kw)
    return o


# ------------------------------------------------------------------ oracle (dense, from the statement)
def filtered(F, chrom, mode, ig):
    """A_f (the matrix that is balanced) and the matrix the thresholds look at"""
    n = len(F)
    idx = np.arange(n)
    Af = F.astype(float).copy()
    if ig:
        Af[np.abs(idx[:, None] - idx[None, :]) < ig] = 0
    same = chrom[:, None] == chrom[None, :]
    base = Af.copy()
    if mode == "cis":
        Af[~same] = 0
        base = Af.copy()
    elif mode == "trans":
        Af[same] = 0
    return Af, base


def prefilter_mask(base, offs, opt, x0, diag2):
    """bins excluded by min_nnz / min_count / MAD-max / blacklist / zero-or-NaN x0.
    diag2=False is the statement's reading (a row sum counts the main diagonal once)."""
    n = len(base)
    d = np.diag(base)
    rs = base.sum(1) + (d if diag2 else 0)
    rn = (base != 0).sum(1) + ((d != 0) if diag2 else 0)
    mask = np.zeros(n, dtype=bool)
    border = False
    if opt["nnz"] > 0:
        mask |= rn < opt["nnz"]
    if opt["cnt"]:
        mask |= rs < opt["cnt"]
    if opt["mad"] > 0:
        norm = np.full(n, np.nan)
        for lo, hi in zip(offs[:-1], offs[1:]):
            c = rs[lo:hi]
            pos = c[c > 0]
            if len(pos):
                norm[lo:hi] = c / np.median(pos)
        pos = norm[norm > 0]
        if len(pos):
            L = np.log(pos)
            med = np.median(L)
            dev = np.median(np.abs(L - med))
            cutoff = np.exp(med - opt["mad"] * dev)
            with np.errstate(invalid="ignore"):
                mask |= norm < cutoff
                near = (norm != cutoff) & (np.abs(norm - cutoff) <= 1e-12 * cutoff)
            border = bool(near.any())
    bl = make_blacklist(opt["bl"], n)
    if bl is not None and len(bl):
        mask[np.asarray(bl, dtype=int)] = True
    if x0 is not None:
        mask |= np.isnan(x0) | (x0 == 0)
    return mask, border


def expected_nan(Af, base, offs, opt, x0, diag2=False, nodata=True):
    mask, border = prefilter_mask(base, offs, opt, x0, diag2)
    keep = ~mask
    rem = Af[:, keep].sum(1)  # what is left of each row among the retained bins (counts >= 0)
    nd = keep & (rem == 0)
    return (mask | nd) if nodata else mask, mask, border


def cweights(sizes):
    n = int(sum(sizes))
    return 1.0 / np.concatenate([[1 - k / n] * k for k in sizes])


def dense_ic(F, sizes, opt, diag2=False, cw=False):
    """the documented iterative correction on the dense symmetric matrix.
    diag2 / cw reproduce two deviating conventions and are used ONLY to name a failure class."""
    n = len(F)
    chrom = chrom_ids(sizes)
    offs = offsets(sizes)
    Af, base = filtered(F, chrom, opt["mode"], opt["ig"])
    x0 = make_x0(opt["x0"], n)
    mask, border = prefilter_mask(base, offs, opt, x0, diag2)
    w = np.ones(n) if x0 is None else np.where(np.isnan(x0), 0.0, x0)
    w[mask] = 0
    c = cweights(sizes) if (cw and opt["mode"] == "trans") else np.ones(n)
    dg = np.diag(Af).copy()
    blocks = list(zip(offs[:-1], offs[1:])) if opt["mode"] == "cis" else [(0, n)]
    scales, variances, near_tol = [], [], False
    for lo, hi in blocks:
        var = np.nan
        nz = np.array([])
        for _ in range(opt["maxit"]):
            u = np.nan_to_num(w * c)  # bins already marked NaN (blocks done before) take no part
            m = u * (Af @ u)
            if diag2:
                m = m + u * u * dg
            m = m[lo:hi]
            nz = m[m != 0]
            if not len(nz):
                w[lo:hi] = np.nan
                var = 0.0
                break
            mm = m / nz.mean()
            mm[mm == 0] = 1
            w[lo:hi] /= mm
            var = nz.var()
            if abs(var - opt["tol"]) <= 1e-6 * opt["tol"]:
                near_tol = True
            if var < opt["tol"]:
                break
        scale = nz.mean() if len(nz) else np.nan
        b = w[lo:hi]
        b[b == 0] = np.nan
        if opt["rescale"]:
            w[lo:hi] /= np.sqrt(scale)
        scales.append(scale)
        variances.append(var)
    if opt["mode"] != "cis":
        return w, scales[0], variances[0], border or near_tol
    return w, np.array(scales), np.array(variances), border or near_tol


def close(a, b, rel=1e-9, abs_=0.0):
    a = np.asarray(a, dtype=float)
    b = np.asarray(b, dtype=float)
    if a.shape != b.shape:
        return False
    na, nb = np.isnan(a), np.isnan(b)
    if not np.array_equal(na, nb):
        return False
    with np.errstate(invalid="ignore"):
        return bool(np.all(na | (np.abs(a - b) <= rel * np.maximum(np.abs(a), np.abs(b)) + abs_)))


def lst(a):
    return [None if (isinstance(x, float) and math.isnan(x)) else x for x in np.asarray(a, dtype=float).tolist()]


# ------------------------------------------------------------------ one run of the real code + contracts
def call_balance(clr, opt, n, **extra):
    x0 = make_x0(opt["x0"], n)
    return balance_cooler(
        clr, cis_only=opt["mode"] == "cis", trans_only=opt["mode"] == "trans", ignore_diags=opt["ig"],
        mad_max=opt["mad"], min_nnz=opt["nnz"], min_count=opt["cnt"], blacklist=make_blacklist(opt["bl"], n),
        rescale_marginals=opt["rescale"], x0=x0, tol=opt["tol"], max_iters=opt["maxit"], chunksize=opt["cs"], **extra)


def flat_ok(rs, R, N, var, scale, rescale):
    """(verdict, bound): verdict None when the bound is vacuous"""
    if not len(R) or not np.isfinite(var) or not np.isfinite(scale):
        return None, None
    delta = math.sqrt(N * var)
    if not (scale > delta):
        return None, None
    lo, hi = 1 / (1 + delta / scale), 1 / (1 - delta / scale)
    if not rescale:
        lo, hi = lo * scale, hi * scale
    v = rs[R]
    return bool(np.all((v >= lo * (1 - SLACK)) & (v <= hi * (1 + SLACK)))), [lo, hi]


def conv_name(diag2, cw, nodata_kept=False):
    parts = []
    if diag2:
        parts.append("ignore_diags=0:main-diagonal-counted-twice")
    if cw:
        parts.append("trans-only:chromosome-factor-missing-from-returned-weights")
    if nodata_kept:
        parts.append("no-remaining-data-bin-keeps-finite-weight")
    return "+".join(parts)


def evaluate(rec, clr, F, sizes, mspec, opt, store_path=None):
    n = len(F)
    chrom = chrom_ids(sizes)
    offs = offsets(sizes)
    case = dict(matrix=mspec, chroms=list(map(int, sizes)), opt=opt)
    mode = opt["mode"]
    out = rec.guarded("balance-runs", case, lambda: call_balance(clr, opt, n),
                      signature=f"balance-runs:exception:{mode}:chunksize={'None' if opt['cs'] is None else 'k'}:{'nnz>0' if F.any() else 'empty-cooler'}")
    if out is None:
        return
    bias, stats = out
    bias = np.asarray(bias, dtype=float)
    conv = np.atleast_1d(np.asarray(stats["converged"]))
    var = np.atleast_1d(np.asarray(stats["var"], dtype=float))
    scale = np.atleast_1d(np.asarray(stats["scale"], dtype=float))
    tol = opt["tol"]
    blocks = list(zip(offs[:-1], offs[1:])) if mode == "cis" else [(0, n)]
    rec.check("converged-flag==(var<tol)", np.array_equal(conv, var < tol) and bias.shape == (n,) and len(conv) == len(blocks), case,
              [conv.tolist(), lst(var)], "converged == (var < tol), one flag per balanced block", nontrivial=bool(conv.any()))
    if len(conv) != len(blocks) or bias.shape != (n,):
        return
    x0 = make_x0(opt["x0"], n)
    Af, base = filtered(F, chrom, mode, opt["ig"])
    got_nan = np.isnan(bias)
    inconv = np.zeros(n, dtype=bool)  # bins of blocks that report convergence: the property speaks about these
    for (lo, hi), cflag in zip(blocks, conv):
        if cflag:
            inconv[lo:hi] = True
    if not inconv.any():
        return
    # deviating conventions that are tried ONLY to name the class of a failure (never to pass a check)
    alts = []
    d2_possible = opt["ig"] == 0 and bool(np.diag(F).any())
    if d2_possible:
        alts.append((True, False))
    if mode == "trans":
        alts.append((False, True))
        if d2_possible:
            alts.append((True, True))
    exp, mask, border = expected_nan(Af, base, offs, opt, x0)
    # ---- NaN set
    if not border:
        good = np.array_equal(got_nan[inconv], exp[inconv])
        sig = None
        if not good:
            sig = f"nan-set:{mode}:other"
            for d2 in (False, True):
                if d2 and not d2_possible:
                    continue
                e2, m2, _ = expected_nan(Af, base, offs, opt, x0, diag2=d2)
                if np.array_equal(got_nan[inconv], e2[inconv]):
                    sig = "nan-set:" + conv_name(d2, False)
                    break
                nd = e2 & ~m2  # bins left without data: the only ones allowed to differ in the "keeps finite weight" class
                if np.array_equal((got_nan | nd)[inconv], e2[inconv]) and not (got_nan & ~e2 & inconv).any():
                    sig = "nan-set:" + conv_name(d2, False, True)
                    break
        rec.check("nan-set==documented-exclusions", good, case,
                  dict(nan_bins=np.flatnonzero(got_nan & inconv).tolist(), weights=lst(bias)),
                  dict(nan_bins=np.flatnonzero(exp & inconv).tolist(), prefilter=np.flatnonzero(mask).tolist()),
                  nontrivial=bool((~exp & inconv).any()), signature=sig)
        R_all = ~exp & inconv
        # a retained bin that came back NaN is already reported by the NaN-set contract: only judge non-NaN ones here
        okpos = bool(np.all(got_nan[R_all] | (np.isfinite(bias[R_all]) & (bias[R_all] > 0))))
        rec.check("retained-weights-finite-positive", okpos, case, lst(bias), "finite and > 0 on retained bins",
                  nontrivial=bool(R_all.any()), signature=f"retained-weights-finite-positive:{mode}")
    # ---- flatness
    w = np.where(got_nan, 0.0, bias)

    def flat(k, lo, hi, d2, cw):
        e2 = exp if not d2 else expected_nan(Af, base, offs, opt, x0, diag2=True)[0]
        u = w * cweights(sizes) if cw else w
        rs = u * (Af @ u) + (u * u * np.diag(Af) if d2 else 0)
        R = np.flatnonzero(~e2 & (np.arange(n) >= lo) & (np.arange(n) < hi))
        v, bound = flat_ok(rs, R, len(R), var[k], scale[k], opt["rescale"])
        return v, bound, rs, R

    for k, ((lo, hi), cflag) in enumerate(zip(blocks, conv)):
        if not cflag:
            continue
        verdict, bound, rs, R = flat(k, lo, hi, False, False)
        bcase = case if mode != "cis" else dict(case, chrom_index=k)
        if verdict is None:
            rec.ok("flat-rowsums-within-bound", bcase, nontrivial=False)  # nothing retained / bound vacuous (scale <= delta)
            continue
        sig = None
        if not verdict:
            sig = f"flat-rowsums:{mode}:other"
            for d2, cw in alts:
                if flat(k, lo, hi, d2, cw)[0]:
                    sig = "flat-rowsums:" + conv_name(d2, cw)
                    break
        rec.check("flat-rowsums-within-bound", verdict, bcase, dict(rowsums=lst(rs[R]), bins=R.tolist(),
                  var=float(var[k]), scale=float(scale[k])), dict(bound=bound), nontrivial=len(R) >= 2, signature=sig)
    # ---- coincidence with the dense procedure
    dw, dscale, dvar, dborder = dense_ic(F, sizes, opt)
    if not dborder:
        def same(ref):
            rw, rscale, rvar, _ = ref
            mu = np.nan_to_num(np.atleast_1d(np.asarray(rscale, dtype=float)))
            return (close(bias, rw, 1e-9) and close(scale, np.atleast_1d(rscale), 1e-9)
                    and close(var, np.atleast_1d(rvar), 1e-6, 1e-13 * float(np.max(mu ** 2, initial=0.0))))
        good = same((dw, dscale, dvar, None))
        sig = None
        if not good:
            sig = f"dense-procedure:{mode}:other"
            for d2, cw in alts:
                if same(dense_ic(F, sizes, opt, diag2=d2, cw=cw)):
                    sig = "dense-procedure:" + conv_name(d2, cw)
                    break
        rec.check("weights+stats==dense-procedure", good, case,
                  dict(weights=lst(bias), scale=lst(scale), var=lst(var)),
                  dict(weights=lst(dw), scale=lst(np.atleast_1d(dscale)), var=lst(np.atleast_1d(dvar))),
                  nontrivial=bool((~got_nan).any()), signature=sig)
    # ---- optional store
    if store_path is not None:
        def stored():
            c2 = cooler.Cooler(store_path)
            b2, s2 = call_balance(c2, opt, n, store=True, store_name="w")
            with h5py.File(store_path, "r") as h5:
                col = h5["bins/w"][:]
                attrs = dict(h5["bins/w"].attrs)
            return b2, col, attrs
        r = rec.guarded("stored-weights==returned", case, stored)
        if r is not None:
            b2, col, attrs = r
            rec.check("stored-weights==returned",
                      close(col, b2, 0.0) and close(b2, bias, 0.0) and close(np.atleast_1d(attrs.get("scale", np.nan)), scale, 0.0)
                      and np.array_equal(np.atleast_1d(attrs.get("converged")), conv),
                      case, dict(stored=lst(col), attrs={k: str(v) for k, v in attrs.items()}), dict(weights=lst(bias)))


# ------------------------------------------------------------------ task = one matrix in one chromosome layout
def run_task(task):
    """task = (tmpdir, id, matrix spec, sizes, [option vectors], store?)"""
    tmp, tid, mspec, sizes, opts, store = task
    rec = Rec()
    F = build_matrix(mspec)
    n = len(F)
    path = os.path.join(tmp, f"t{tid}.cool")
    case0 = dict(matrix=mspec, chroms=list(sizes))
    ok = rec.guarded("balance-runs", case0, lambda: make_cooler(path, layout_bins(sizes), pixels_from_dense(F, True), True),
                     signature="create:exception")
    if ok is None:
        return rec
    clr = cooler.Cooler(path)
    for k, opt in enumerate(opts):
        evaluate(rec, clr, F, sizes, mspec, opt, store_path=path if (store and k == 0) else None)
    try:
        os.remove(path)
    except OSError:
        pass
    return rec


def modes_for(sizes):
    return ["gw", "cis"] + (["trans"] if len(sizes) > 1 else [])


def ofat(mode):
    """one-factor-at-a-time around the base vector: every value of every option axis"""
    out = [O(mode=mode)]
    for ig in (0, 2, 3):
        out.append(O(mode=mode, ig=ig))
    for z in (0, 2, 3):
        out.append(O(mode=mode, nnz=z))
    for c in (3, 6):
        out.append(O(mode=mode, cnt=c, nnz=0))
    for m in (1, 5):
        out.append(O(mode=mode, mad=m, nnz=0))
    for b in ("[1]", "[0,last]", "[]", "array[2]"):
        out.append(O(mode=mode, bl=b))
    for t in (1e-2, 1e-8, 1e6):
        out.append(O(mode=mode, tol=t, maxit=100 if t < 1e-5 else 25))
    for mi in (1, 3, 100):
        out.append(O(mode=mode, maxit=mi))
    for x in ("ones", "rand", "zero@1", "nan@last", "rand+zero@0+nan@2"):
        out.append(O(mode=mode, x0=x))
    out.append(O(mode=mode, rescale=False))
    out.append(O(mode=mode, rescale=False, ig=0, nnz=0))
    out.append(O(mode=mode, cs=3, tol=1e-3))
    return out


def one_sweep(**kw):
    """tol so large that the first sweep reports convergence: the NaN-set / dense-procedure clauses apply in full at 1 sweep's cost"""
    return O(tol=1e6, **kw)


GRID = dict(ig=(0, 1, 2, 3), nnz=(0, 1, 2, 3), cnt=(0, 3, 6), mad=(0, 1, 5), bl=(None, "[1]", "[0,last]"))


def random_opts(rng, mode, k):
    out = []
    for _ in range(k):
        out.append(O(mode=mode, ig=rng.choice(GRID["ig"]), nnz=rng.choice(GRID["nnz"]), cnt=rng.choice(GRID["cnt"]),
                     mad=rng.choice(GRID["mad"]), bl=rng.choice((None, None, "[1]", "[0,last]", "[]")),
                     tol=rng.choice((1e-5, 1e-5, 1e-2, 1e-8, 1e6)), maxit=rng.choice((25, 25, 100, 2)),
                     x0=rng.choice((None, None, "rand", "zero@1", "nan@last")), rescale=rng.choice((True, True, False)),
                     cs=rng.choice((None, None, None, 4))))
    return out


def full_grid(mode):
    return [O(mode=mode, ig=a, nnz=b, cnt=c, mad=d, bl=e) for a, b, c, d, e in
            itertools.product(GRID["ig"], GRID["nnz"], GRID["cnt"], GRID["mad"], GRID["bl"])]


def graphs(n, values=(0, 1), diag=None):
    """all symmetric matrices on n bins with off-diagonal entries in `values`; diagonal fixed (diag) or also enumerated"""
    pairs = [(i, j) for i in range(n) for j in range(i + 1, n)]
    dsets = [tuple(diag)] if diag is not None else list(itertools.product(values, repeat=n))
    for dg in dsets:
        for vals in itertools.product(values, repeat=len(pairs)):
            F = np.zeros((n, n), dtype=np.int64)
            for (i, j), v in zip(pairs, vals):
                F[i, j] = F[j, i] = v
            for i in range(n):
                F[i, i] = dg[i]
            yield F


def curated():
    """hand-made matrices with the features the quantifier names: sparse..dense, empty rows, isolated bins,
    diagonal-only bins, disconnected blocks, non-scalable (star) pattern, strongly graded marginals (MAD outliers)"""
    out = []
    out.append(("dense5", np.array([[2, 1, 2, 1, 1], [1, 1, 1, 2, 1], [2, 1, 0, 1, 2], [1, 2, 1, 2, 1], [1, 1, 2, 1, 1]])))
    out.append(("emptyrow+isolated6", np.array([[1, 2, 0, 1, 0, 1], [2, 0, 0, 1, 0, 2], [0, 0, 0, 0, 0, 0], [1, 1, 0, 2, 0, 1],
                                                  [0, 0, 0, 0, 3, 0], [1, 2, 0, 1, 0, 0]])))
    out.append(("graded6", np.array([[4, 6, 5, 7, 1, 6], [6, 2, 7, 5, 0, 8], [5, 7, 3, 6, 1, 5], [7, 5, 6, 1, 0, 7],
                                       [1, 0, 1, 0, 0, 1], [6, 8, 5, 7, 1, 2]])))
    out.append(("banded6", np.array([[3, 2, 1, 0, 0, 0], [2, 3, 2, 1, 0, 0], [1, 2, 3, 2, 1, 0], [0, 1, 2, 3, 2, 1],
                                       [0, 0, 1, 2, 3, 2], [0, 0, 0, 1, 2, 3]])))
    out.append(("blocks+star6", np.array([[0, 1, 1, 0, 0, 0], [1, 0, 2, 0, 0, 0], [1, 2, 1, 0, 0, 0], [0, 0, 0, 1, 1, 1],
                                            [0, 0, 0, 1, 0, 0], [0, 0, 0, 1, 0, 0]])))
    out.append(("chain-to-blacklisted5", np.array([[0, 1, 2, 1, 1], [1, 0, 0, 0, 0], [2, 0, 1, 2, 1], [1, 0, 2, 0, 2], [1, 0, 1, 2, 1]])))
    return out


LAYOUTS = {4: [(4,), (2, 2), (2, 1, 1)], 5: [(5,), (3, 2), (2, 2, 1)], 6: [(6,), (3, 3), (3, 2, 1)],
           3: [(3,), (2, 1), (1, 1, 1)], 30: [(30,), (18, 12), (14, 9, 7)]}


def rand_spec(seed, n=30):
    g = np.random.default_rng(seed)
    return {"kind": "rand", "n": n, "seed": int(seed), "density": float(g.choice([0.15, 0.4, 0.9])), "maxval": int(g.choice([2, 9, 40])),
            "band": int(g.choice([-1, 1, 2])), "empty": sorted(map(int, g.choice(n, 2, replace=False))),
            "diagonly": [int(g.integers(n))], "weak": sorted(map(int, g.choice(n, 2, replace=False))), "strong": [int(g.integers(n))]}


def replay(B):
    """./check C10 --replay <file>: re-evaluate every contract on the recorded case only"""
    r = json.load(open(B.replay_file))
    case = r["case"]
    rec = Rec()
    F = build_matrix(case["matrix"])
    sizes = tuple(case["chroms"])
    path = B.path("replay.cool")
    make_cooler(path, layout_bins(sizes), pixels_from_dense(F, True), True)
    evaluate(rec, cooler.Cooler(path), F, sizes, case["matrix"], case["opt"],
             store_path=path if r["contract"].startswith("stored") else None)
    out = dict(replay=B.replay_file, contract=r["contract"], signature=r["signature"],
               reproduced=any(f[0] == r["contract"] and f[4] == r["signature"] for f in rec.fails),
               failures=[dict(contract=f[0], signature=f[4], observed=f[2], expected=f[3]) for f in rec.fails],
               passed=rec.counts)
    shutil.rmtree(B.tmp, ignore_errors=True)
    print(json.dumps(out, default=str))
    return 0


def main():
    B = Bounded("C10", "bounded/C10.py")
    B.max_violations = 60
    if B.replay_file:
        return replay(B)
    tasks = []
    tid = itertools.count()
    tmp = B.path("w")
    os.makedirs(tmp, exist_ok=True)

    def add(mspec, sizes, opts, store=False):
        tasks.append((tmp, next(tid), mspec, tuple(int(s) for s in sizes), opts, store))

    if not B.thorough:
        # S1: every graph on 4 bins (0/1 off the diagonal, diagonal (1,0,2,1)) x layouts 2+2 / 2+1+1 x modes
        for F in graphs(4, (0, 1), diag=(1, 0, 2, 1)):
            for sizes in ((2, 2), (2, 1, 1)):
                ms = modes_for(sizes) if sizes == (2, 2) else ["cis", "trans"]
                opts = [one_sweep(mode=m, ig=ig, nnz=0) for m in ms for ig in (0, 1)]
                if sizes == (2, 2):
                    opts += [one_sweep(mode="gw", ig=ig, nnz=2) for ig in (0, 1)] + [O(mode="gw", ig=1, nnz=0)]
                elif F[0, 1] == 0:  # the only cis entry off the diagonal: irrelevant to trans, skip the duplicate
                    opts += [O(mode="trans", ig=1, nnz=0)]
                add(upper_spec(F), sizes, opts)
        # the empty cooler (no pixel at all): every mode, chunksize None and 3
        add(upper_spec(np.zeros((4, 4), dtype=int)), (2, 2), [one_sweep(mode=m, ig=1, nnz=z, cs=c) for m in ("gw", "cis", "trans") for z in (0, 1) for c in (None, 3)])
        # trans-only on a one-chromosome cooler (no inter-chromosomal data at all)
        add(upper_spec(curated()[0][1]), (5,), [O(mode="trans", maxit=6), one_sweep(mode="trans", ig=0, nnz=0)])
        # S2: curated matrices; every value of every option axis around the base on the 2-chromosome layout, seeded vectors elsewhere
        for k, (name, F) in enumerate(curated()):
            lays = LAYOUTS[len(F)]
            opts = []
            for m in modes_for(lays[1]):
                opts += ofat(m) if k in (0, 1, 2) else [O(mode=m), O(mode=m, ig=0, nnz=0), O(mode=m, mad=1, nnz=0), O(mode=m, ig=2, nnz=2), O(mode=m, bl="[0,last]"), O(mode=m, x0="zero@1")]
            add(upper_spec(F), lays[1], opts, store=True)
            for sizes in (lays[0], lays[2]):
                opts = []
                for m in modes_for(sizes):
                    opts += random_opts(B.rng, m, 3)
                add(upper_spec(F), sizes, opts)
        # S3: seeded 30-bin matrices
        for s in range(2):
            spec = rand_spec(1000 * B.seed + s)
            sizes = LAYOUTS[30][1 + s]
            opts = []
            for m in modes_for(sizes):
                opts += [O(mode=m, nnz=3), O(mode=m, ig=2, nnz=5, mad=5), O(mode=m, ig=0, nnz=0, mad=1, cnt=6)] + random_opts(B.rng, m, 1)
            add(spec, sizes, opts)
        B.bound = ("all 64 symmetric 0/1 patterns on 4 bins (diagonal 1,0,2,1) x {2+2: genome-wide, cis, trans | 2+1+1: cis, trans} x ignore_diags {0,1} "
                   "at one sweep (tol 1e6; min_nnz {0,2} genome-wide) and to tol 1e-5 at ignore_diags 1 (genome-wide on 2+2, trans on 2+1+1); the empty 4-bin cooler x every mode x chunksize {None,3}; trans-only on a one-chromosome cooler; "
                   "3 curated 5-6 bin matrices (dense, empty row + diagonal-only bin, graded marginals) x 2 chromosomes x every mode x "
                   "every value of each option axis around a base vector (ignore_diags 0..3, min_nnz 0..3, min_count {0,3,6}, mad_max {0,1,5}, 5 blacklists, "
                   "tol {1e-8,1e-5,1e-2,1e6}, max_iters {1,3,25,100}, 6 initial-weight vectors, rescale on/off, chunksize {None,3}); 3 more curated (banded, "
                   "blocks + star, chain to a blacklisted bin) x 6 vectors; all 6 x {1, 3 chromosomes} x every mode x 3 seeded vectors; 2 seeded 30-bin matrices (18+12 / 14+9+7 bins) x every mode x 4 vectors")
        B.exhaustive = True
    else:
        # T1: every symmetric 0/1 matrix on 4 bins (diagonal included: 1024)
        for F in graphs(4, (0, 1)):
            add(upper_spec(F), (2, 2), [one_sweep(mode="gw", ig=ig, nnz=z) for ig in (0, 1, 2) for z in (0, 2)]
                + [one_sweep(mode=m, ig=ig, nnz=0) for m in ("cis", "trans") for ig in (0, 1, 2)] + [O(mode="gw", ig=1, nnz=0)])
            add(upper_spec(F), (2, 1, 1), [one_sweep(mode=m, ig=ig, nnz=1) for m in ("cis", "trans") for ig in (0, 1)])
        # T2: every symmetric matrix on 4 bins with off-diagonal entries 0/1/2 (729): min_count x mad_max
        for F in graphs(4, (0, 1, 2), diag=(1, 0, 2, 1)):
            add(upper_spec(F), (2, 2), [one_sweep(mode=m, ig=1, nnz=0, cnt=c, mad=d) for m in ("gw", "cis") for c in (0, 2, 3) for d in (0, 1, 5)]
                + [one_sweep(mode="trans", ig=1, nnz=0, mad=d) for d in (0, 1, 5)] + [O(mode="gw", ig=1, nnz=0, mad=d) for d in (0, 1)])
        # T3: every graph on 5 bins (1024)
        for F in graphs(5, (0, 1), diag=(1, 0, 2, 1, 1)):
            add(upper_spec(F), (3, 2), [one_sweep(mode="gw", ig=ig, nnz=z) for ig in (1, 2) for z in (0, 2)]
                + [one_sweep(mode=m, ig=ig, nnz=0) for m in ("cis", "trans") for ig in (1, 2)] + [O(mode="gw", ig=1, nnz=0)])
        # T4: curated: FULL grid ig x nnz x cnt x mad x blacklist (432) on the 2-chromosome layout, one-factor vectors on every layout
        for k, (name, F) in enumerate(curated()):
            lays = LAYOUTS[len(F)]
            for m in modes_for(lays[1]):
                if k in (0, 1, 2):
                    add(upper_spec(F), lays[1], full_grid(m), store=True)
            for sizes in lays:
                for m in modes_for(sizes):
                    add(upper_spec(F), sizes, ofat(m))
        # T5: seeded sampling beyond the bound: 8-30 bin random matrices, random option vectors
        for s in range(30):
            nn = 30 if s % 2 == 0 else int(B.rng.choice((8, 10, 12)))
            spec = rand_spec(1000 * B.seed + s, nn)
            lays = LAYOUTS[30] if nn == 30 else [(nn,), (nn - 3, 3), (nn - 5, 3, 2)]
            for sizes in lays:
                opts = []
                for m in modes_for(sizes):
                    opts += random_opts(B.rng, m, 8)
                add(spec, sizes, opts)
        B.bound = ("all 1024 symmetric 0/1 matrices on 4 bins x {2+2: genome-wide x ignore_diags 0..2 x min_nnz {0,2}, cis and trans x ignore_diags 0..2 | "
                   "2+1+1: cis, trans x ignore_diags {0,1}} at one sweep (tol 1e6) + genome-wide to tol 1e-5; all 729 symmetric matrices on 4 bins with off-diagonal "
                   "entries 0/1/2 x 2+2 x {genome-wide, cis} x min_count {0,2,3} x mad_max {0,1,5} (+ trans x mad_max) at one sweep (+ genome-wide mad_max {0,1} to tol "
                   "1e-5); all 1024 graphs on 5 bins x 3+2 x every mode x ignore_diags {1,2} (genome-wide also min_nnz {0,2}) at one sweep (+ genome-wide to tol 1e-5); "
                   "3 curated 5-6 bin matrices x 2 chromosomes x every mode x full grid ignore_diags 0..3 x min_nnz 0..3 x min_count {0,3,6} x mad_max {0,1,5} x "
                   "3 blacklists; 6 curated x 3 layouts x every mode x every value of tol, max_iters, x0, rescale, chunksize, blacklist around the base; "
                   "beyond the bound: 30 seeded random matrices (8-30 bins) x 3 layouts x every mode x 8 seeded option vectors")
        B.exhaustive = False
    B.rule = ("case = (matrix, chromosome layout, option vector[, chromosome]); a run that does not report convergence is outside the property "
              "(only converged-flag is evaluated); non-trivial: NaN-set when a bin is retained, flatness when >= 2 bins are retained and scale > sqrt(N var) "
              "(otherwise the bound is vacuous and the evaluation is counted as trivial); distinct by (contract, case)")

    state = dict(sampled=set(), recorded={}, failcount={})
    if B.thorough:
        from multiprocess import Pool
        tasks.sort(key=lambda t: -len(t[4]))  # big tasks first (stable, deterministic): keeps the 8 workers evenly loaded
        with Pool(8) as pool:
            for rec in pool.imap(run_task, tasks, chunksize=1):
                merge(B, rec, state)
    else:
        for t in tasks:
            merge(B, run_task(t), state)
    if state["failcount"]:
        B.samples.insert(0, {"contract": "failures-by-signature", "case": json.dumps(dict(sorted(state["failcount"].items())))})
    return B.finish()


if __name__ == "__main__":
    sys.exit(main())
