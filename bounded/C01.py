"""C01 bounded stand-in: create-then-read round trip on REAL files.

For every enumerated (bin table, sparse matrix, storage mode, input form, chunking,
value dtype / extra columns, HDF5 filter options, metadata, assembly) the real
`cooler.create_cooler` writes a file and the real read API (`Cooler.pixels()[:]`,
`Cooler.matrix(balance=False)[:, :]`, `Cooler.info`) is compared with a plain-python
recomputation from the enumerated records (never with anything the library computed).

Sections (each one is exhaustive in the dimension it names; the other dimensions are
fixed or rotated deterministically / drawn from the seeded generator):
  A  all 0/1/2-valued matrices on <= n bins (symmetric-upper and square)
  B  all input forms x all chunkings (uniform sizes 1..nnz+1, all compositions incl. empty
     chunks, ArrayLoader chunk sizes 1..n+1) on named matrices
  C  all bin layouts (<= 3 chromosomes, <= N bins; fixed/short last, exact, variable, one-bin)
  D  value dtypes x extra value columns
  E  HDF5 filter option sets
  F  JSON metadata documents and assembly names
  G  frames/dicts whose rows are given in any order (create_cooler sorts them)
  H  chunk streams through the DEFAULT (unordered, external-sort) path: chunk counts x max_merge (two-pass merge when
     there are more chunks than max_merge) x mergebuf, empty chunks, pixels repeated across chunks (summed)
"""
import itertools
import shutil
import os
import re
import sys
import traceback
import warnings

sys.path.insert(0, os.path.dirname(os.path.dirname(os.path.abspath(__file__))))
warnings.filterwarnings("ignore")

import h5py  # noqa: E402
import numpy as np  # noqa: E402
import pandas as pd  # noqa: E402

import cooler  # noqa: E402
from cooler.create import ArrayLoader  # noqa: E402

from bounded.common import Bounded  # noqa: E402


# ------------------------------------------------------------------ recording
class Rec:
    """thin layer over Bounded: stable signatures (contract:kind), at most `cap`
    recorded violations per signature so one failure class cannot hide the others"""

    def __init__(self, B, cap=2):
        self.B = B
        self.cap = cap
        self.sigcount = {}
        B.max_violations = 60

    def fail(self, contract, case, observed, expected, kind=""):
        sig = f"{contract}:{kind}" if kind else contract
        self.sigcount[sig] = self.sigcount.get(sig, 0) + 1
        if self.sigcount[sig] <= self.cap:
            self.B.fail(contract, case, observed, expected, sig)
        else:  # counted, not listed again
            self.B.evaluations += 1
            self.B.contracts[contract] = self.B.contracts.get(contract, 0) + 1

    def check(self, contract, cond, case, observed=None, expected=None, nontrivial=True, kind=""):
        if cond:
            self.B.ok(contract, case, nontrivial)
        else:
            self.fail(contract, case, observed, expected, kind)
        return bool(cond)

    def guarded(self, contract, case, fn, kind=""):
        try:
            return True, fn()
        except Exception as e:  # an unexpected exception is a failure of that contract on that case
            msg = re.sub(r"[^A-Za-z ]+", "#", str(e).split("\n")[0])[:32].strip()  # stable part of the message
            self.fail(contract, case, f"{type(e).__name__}: {e}\n{traceback.format_exc(limit=4)}", "no exception",
                      f"exception:{type(e).__name__}({msg})" + (f":{kind}" if kind else ""))
            return False, None

    def dump(self):
        if os.environ.get("BOUNDED_DEBUG"):
            for k, v in sorted(self.sigcount.items()):
                print(f"  {v:6d}  {k}", file=sys.stderr)


# ------------------------------------------------------------------ scope helpers
NAMES = {"fixed-short-last": ["chr1", "chr2", "chr3"], "fixed-exact": ["b", "a", "c"],
         "variable": ["chr2", "chr10", "chr1"]}
VARW = [3, 7, 2, 18, 5, 1]


def make_layout(parts, kind):
    """bin table for chromosomes with parts[i] bins each; returns (spec, DataFrame).
    spec = {chrom: [edges]} in chromosome order (a list of pairs, JSON-able)"""
    spec = []
    for ci, m in enumerate(parts):
        name = NAMES[kind][ci]
        if kind == "fixed-short-last":
            edges = [10 * k for k in range(m)] + [10 * (m - 1) + 3 + 2 * ci]
        elif kind == "fixed-exact":
            edges = [10 * k for k in range(m + 1)]
        else:
            edges = [0]
            for j in range(m):
                edges.append(edges[-1] + VARW[(j + ci) % len(VARW)])
        spec.append([name, edges])
    return spec, bins_of(spec)


def bins_of(spec):
    rows = []
    for name, edges in spec:
        for s, e in zip(edges[:-1], edges[1:]):
            rows.append((name, s, e))
    return pd.DataFrame(rows, columns=["chrom", "start", "end"])


def compositions(n, maxparts):
    """all ordered ways to write n as a sum of 1..maxparts positive integers"""
    if n == 0:
        return
    for k in range(1, maxparts + 1):
        for cuts in itertools.combinations(range(1, n), k - 1):
            edges = (0, *cuts, n)
            yield [b - a for a, b in zip(edges[:-1], edges[1:])]


def default_layout(n):
    if n == 1:
        return make_layout([1], "fixed-short-last")
    return make_layout([n - n // 2, n // 2], "fixed-short-last")


def cells_of(n, symm):
    return [(i, j) for i in range(n) for j in range(n) if (j >= i or not symm)]


def all_matrices(n, symm, values=(1, 2), max_nnz=None):
    cells = cells_of(n, symm)
    top = len(cells) if max_nnz is None else min(max_nnz, len(cells))
    for k in range(top + 1):
        for subset in itertools.combinations(range(len(cells)), k):
            for vals in itertools.product(values, repeat=k):
                yield [(cells[c][0], cells[c][1], v) for c, v in zip(subset, vals)]


def named_matrices(n, symm, rng):
    """named record lists (sorted); values are small positive ints"""
    cells = cells_of(n, symm)
    out = [("empty", []),
           ("diagonal", [(i, i, i + 1) for i in range(n)]),
           ("dense", [(i, j, 1 + i * n + j) for (i, j) in cells])]
    sp = sorted({cells[rng.randrange(len(cells))] for _ in range(n + 1)})
    sp = [c for c in sp if n <= 2 or (c[0] != 1 and c[1] != 1)] or [cells[0]]
    out.append(("sparse-empty-row", [(i, j, 1 + (3 * i + j) % 7) for (i, j) in sp]))
    out.append(("corners", sorted({(0, n - 1, 3), (n - 1, n - 1, 5)})))
    if not symm and n > 1:
        out.append(("strictly-lower", [(i, j, 2 + i + j) for (i, j) in cells if j < i]))
        out.append(("asymmetric", [(i, j, 1 + 2 * i + 5 * j) for (i, j) in cells if (i + 2 * j) % 3 != 1]))
    return out


def full_of(recs, n, symm, col=2):
    """plain nested-list full matrix: square = the stored matrix, symmetric-upper = its completion"""
    F = [[0] * n for _ in range(n)]
    for r in recs:
        i, j, v = r[0], r[1], r[col]
        F[i][j] = v
        if symm and i != j:
            F[j][i] = v
    return F


NP = {"int32": np.int32, "int64": np.int64, "float64": np.float64}


def columns_of(recs, valcols, vdtypes):
    """column name -> numpy array for the records; valcols = names of value columns (record positions 2..)"""
    cols = {"bin1_id": np.array([r[0] for r in recs], dtype=np.int64),
            "bin2_id": np.array([r[1] for r in recs], dtype=np.int64)}
    for k, name in enumerate(valcols):
        cols[name] = np.array([r[2 + k] for r in recs], dtype=NP[vdtypes[name]])
    return cols


def chunk_edges(sizes):
    e = [0]
    for s in sizes:
        e.append(e[-1] + s)
    return e


_OPEN = []


def build_input(form, recs, bins, symm, valcols, vdtypes, B):
    """the `pixels` argument for create_cooler in the requested input form.
    form = [name, parameter]; returns (pixels, extra kwargs)"""
    name, par = form
    n = len(bins)
    while _OPEN:
        _OPEN.pop().close()
    cols = columns_of(recs, valcols, vdtypes)
    if name == "frame":
        return pd.DataFrame(cols), {}
    if name == "dict":
        return cols, {}
    if name == "iter-frames":
        df = pd.DataFrame(cols)
        e = chunk_edges(par)
        return iter([df.iloc[a:b] for a, b in zip(e[:-1], e[1:])]), {"ordered": True}
    if name == "iter-dicts":
        e = chunk_edges(par)
        return iter([{k: v[a:b] for k, v in cols.items()} for a, b in zip(e[:-1], e[1:])]), {"ordered": True}
    if name == "list-frames":  # a re-iterable container instead of a one-shot iterator
        df = pd.DataFrame(cols)
        e = chunk_edges(par)
        return [df.iloc[a:b] for a, b in zip(e[:-1], e[1:])], {"ordered": True}
    if name in ("unordered-frames", "unordered-dicts"):
        # chunks in ARBITRARY order (each one internally sorted, possibly empty, pixels may repeat across chunks) through the
        # two-step external-sort path of create_cooler: ordered=False given explicitly or left to its default
        e = chunk_edges(par["sizes"])
        if name == "unordered-frames":
            df = pd.DataFrame(cols)
            chunks = [df.iloc[a:b] for a, b in zip(e[:-1], e[1:])]
        else:
            chunks = [{k: v[a:b] for k, v in cols.items()} for a, b in zip(e[:-1], e[1:])]
        extra = {"max_merge": par["max_merge"], "mergebuf": par["mergebuf"]}
        if par.get("explicit_ordered_false", True):
            extra["ordered"] = False
        return iter(chunks), extra
    if name in ("array-loader", "array-loader-h5"):
        assert valcols == ["count"]
        A = np.zeros((n, n), dtype=NP[vdtypes["count"]])
        for i, j, v in recs:
            A[i, j] = v
            if symm:
                A[j, i] = v  # dense input = the full symmetric matrix; the loader keeps i <= j
        if name == "array-loader-h5":
            p = B.path("dense-input.h5")
            with h5py.File(p, "w") as f:
                f.create_dataset("A", data=A)
            fh = h5py.File(p, "r")
            _OPEN.append(fh)  # closed at the next build_input call
            A = fh["A"]
        return ArrayLoader(bins, A, par), {"ordered": True}
    raise ValueError(name)


def aggregate(recs):
    """per-pixel sum of the count over all records, in (bin1_id, bin2_id) order"""
    tot = {}
    for i, j, v in recs:
        tot[(i, j)] = tot.get((i, j), 0) + v
    return [(i, j, tot[(i, j)]) for (i, j) in sorted(tot)]


def unordered_chunks(cells, k, variant):
    """k chunks over the given cells, deterministic: sizes cycle 2,1,0,3 (every 4th chunk empty), each chunk internally
    sorted and duplicate-free, the pixel cells[0] present in the first AND the last non-empty chunk (repeated => summed),
    chunk order not sorted.  Losing any non-empty chunk changes the aggregate."""
    chunks = []
    for t in range(k):
        size = [2, 1, 0, 3][(t + variant) % 4]
        d = {cells[(5 * t + 3 * s + variant) % len(cells)]: 1 + (t + s) % 3 for s in range(size)}
        chunks.append(d)
    nonempty = [d for d in chunks if d]
    if nonempty:
        nonempty[0][cells[0]] = 7
        if len(nonempty) > 1:
            nonempty[-1][cells[0]] = 2
    return [[(i, j, v) for (i, j), v in sorted(d.items())] for d in chunks]


def uniform_sizes(nnz, k):
    out = [k] * (nnz // k)
    if nnz % k:
        out.append(nnz % k)
    return out


def same_json(a, b):
    """strict equality of JSON documents (bool is not int, int is not float)"""
    if isinstance(a, bool) or isinstance(b, bool):
        return isinstance(a, bool) and isinstance(b, bool) and a == b
    if isinstance(a, dict):
        return isinstance(b, dict) and list(sorted(a)) == list(sorted(b)) and all(same_json(a[k], b[k]) for k in a)
    if isinstance(a, list):
        return isinstance(b, list) and len(a) == len(b) and all(same_json(x, y) for x, y in zip(a, b))
    if a is None or b is None:
        return a is None and b is None
    if isinstance(a, str) or isinstance(b, str):
        return isinstance(a, str) and isinstance(b, str) and a == b
    if isinstance(a, int) and isinstance(b, (int, np.integer)):
        return a == int(b)
    if isinstance(a, float) and isinstance(b, float):
        return a == b
    return False


def looks_like_json(s):
    import json
    try:
        json.loads(s)
        return True
    except ValueError:
        return False


# ------------------------------------------------------------------ one case
class Runner:
    def __init__(self, B):
        self.B = B
        self.R = Rec(B)
        self.k = 0

    def run(self, section, spec, bins, recs, symm, form, valcols=("count",), vdtypes=None, pass_dtypes=True,
            h5opts=None, metadata=None, assembly=None, group=None, expected_recs=None):
        """create with the real library, then evaluate the C01 contracts on what the real reader returns.
        recs are given to the library in the listed order; expected_recs (default: recs in (bin1_id, bin2_id) order) is what must come back"""
        B, R = self.B, self.R
        valcols = list(valcols)
        vdtypes = dict(vdtypes or {c: "int32" for c in valcols})
        n = len(bins)
        unordered = form[0].startswith("unordered-")
        # what must come back: the records in (bin1_id, bin2_id) order (inputs of sections A-F are already in that order);
        # for the unordered chunk forms (section H) the per-pixel SUM over all chunks
        if expected_recs is not None:
            exp = expected_recs
        elif unordered:
            exp = aggregate(recs)
        else:
            exp = sorted(recs, key=lambda r: (r[0], r[1]))
        nnz = len(exp)
        case = dict(section=section, bins=spec, records=[list(r) for r in recs], symmetric_upper=symm, form=list(form),
                    value_columns=valcols, dtypes=vdtypes, pass_dtypes=pass_dtypes,
                    h5opts=h5opts, metadata=metadata, assembly=assembly, group=group)
        kind = f"{form[0]}/{'empty' if nnz == 0 else 'nonempty'}-matrix"
        if unordered:
            nch = len(form[1]["sizes"])
            kind = (f"{form[0]}/{'two-pass(nchunks>max_merge)' if nch > form[1]['max_merge'] else 'single-pass'}/"
                    f"{'empty' if nnz == 0 else 'nonempty'}-matrix")
        c_pix = "pixels-table==aggregate-of-all-chunks" if unordered else "pixels-table==input-records"
        nt = nnz > 0
        self.k += 1
        path = B.path(f"c{self.k % 4}.cool")
        uri = path if group is None else f"{path}::{group}"
        kw = {}
        if list(valcols) != ["count"]:
            kw["columns"] = valcols
        if pass_dtypes:
            kw["dtypes"] = {c: NP[vdtypes[c]] for c in valcols}
        if h5opts is not None:
            kw["h5opts"] = dict(h5opts, **({"chunks": tuple(h5opts["chunks"])} if "chunks" in h5opts else {}))
        if metadata is not None:
            kw["metadata"] = metadata
        if assembly is not None:
            kw["assembly"] = assembly

        def do_create():
            pixels, extra = build_input(form, recs, bins, symm, valcols, vdtypes, B)
            cooler.create_cooler(uri, bins, pixels, symmetric_upper=symm, **kw, **extra)
        ok, _ = R.guarded("create-accepts-valid-input", case, do_create, kind)
        if not ok:
            return
        R.check("create-accepts-valid-input", True, case, nontrivial=nt)
        ok, clr = R.guarded(c_pix, case, lambda: cooler.Cooler(uri), kind)
        if not ok:
            return

        # --- through the pixel table: exactly the records, every column, row t labelled t
        ok, pix = R.guarded(c_pix, case, lambda: clr.pixels()[:], kind)
        if ok:
            want_cols = ["bin1_id", "bin2_id", *valcols]
            want = {c: [r[k] for r in exp] for k, c in enumerate(want_cols)}
            got = {c: pix[c].tolist() for c in pix.columns}
            good = (sorted(got) == sorted(want) and list(pix.index) == list(range(nnz))
                    and all(len(got[c]) == nnz and all(x == y for x, y in zip(got[c], want[c])) for c in want))
            R.check(c_pix, good, case, dict(index=list(pix.index), **got), want, nt, kind)

        # --- through the full-matrix query
        for k, col in enumerate(valcols):
            contract = "full-matrix==completion-of-stored" if symm else "full-matrix==stored-matrix"
            if col != "count":
                contract = "full-matrix-of-extra-column"
            if unordered:
                contract = "full-matrix==aggregate-of-all-chunks"
            F = full_of(exp, n, symm, 2 + k)
            ok, M = R.guarded(contract, case, lambda: clr.matrix(balance=False, field=None if col == "count" else col)[:, :],
                              kind)
            if ok:
                R.check(contract, M.shape == (n, n) and M.tolist() == F, dict(case, field=col), M.tolist(), F, nt, kind)

        # --- metadata query
        if metadata is not None or assembly is not None:
            ok, info = R.guarded("metadata-returned-unchanged", case, lambda: clr.info, kind)
            if ok and metadata is not None:
                got = info.get("metadata", "<absent>")
                R.check("metadata-returned-unchanged", same_json(metadata, got), case, got, metadata,
                        metadata not in ({}, [], ""), "any-json-document")
            if ok and assembly is not None:
                got = info.get("genome-assembly", "<absent>")
                R.check("assembly-returned-unchanged", isinstance(got, str) and got == assembly, case, repr(got),
                        repr(assembly), True,
                        "name-that-parses-as-json" if looks_like_json(assembly) else "plain-name")


H5SETS = [None,
          {"compression": None, "shuffle": False},
          {"compression": "lzf"},
          {"compression": "gzip", "compression_opts": 9, "shuffle": False, "fletcher32": True, "chunks": [1]}]

METADATA = [
    {},
    {"a": 1},
    {"nested": {"x": [1, 2.5, "s", None, True, False, {"y": []}], "z": {}}},
    {"unicode": "żółć ☃ \U0001f9ec", "escapes": "\u0000 \n\t\"\\ /", "": ""},
    {"big": 2 ** 70, "neg": -1, "float": 0.1, "tiny": 1e-300, "huge": 1.7976931348623157e308, "intlike": 1.0},
    {"looks-like-json": "{\"a\": 1}", "num-string": "123", "null-string": "null", "true-string": "true"},
    {"k" * 300: "v" * 5000, "list": list(range(50))},
    {"deep": [[[[[[[[[[{"bottom": [None]}]]]]]]]]]]},
    [1, "two", {"three": None}],
    "just a string",
    "123",
    0,
    False,
    [],
    {"bool-vs-int": [True, 1, 1.0, "1"], "none": None},
    {"long": "x" * 100000},
]

ASSEMBLIES = ["hg19", "mm10", "GRCh38.p13", "unknown", "", " with space ", "żółw", "T2T-CHM13v2.0",
              "123", "null", "true", "1e5", "[1]", "\"quoted\""]


def random_sizes(rng, nnz):
    """a random split of nnz records into chunks, empty chunks included"""
    sizes = []
    left = nnz
    while left > 0:
        s = rng.randint(0, left)
        sizes.append(s)
        left -= s
    if rng.random() < 0.5:
        sizes.append(0)
    if rng.random() < 0.3:
        sizes.insert(0, 0)
    return sizes or [0]


def rotate_form(idx, nnz, n, rng):
    f = idx % 6
    if f == 0:
        return ["frame", None]
    if f == 1:
        return ["dict", None]
    if f == 2:
        return ["iter-frames", random_sizes(rng, nnz)]
    if f == 3:
        return ["iter-dicts", uniform_sizes(nnz, rng.randint(1, nnz + 1)) or [0]]
    if f == 4:
        return ["array-loader", rng.randint(1, n + 1)]
    return ["iter-frames", [1] * nnz + [0]]


def replay(B, run):
    """re-run exactly one recorded case (./check C01 --replay <file>) and print what every contract says"""
    import json
    rec = json.load(open(B.replay_file))
    c = rec["case"]
    print("replaying", rec["contract"], "signature:", rec.get("signature"))
    print("case:", json.dumps(c)[:1500])
    spec = c["bins"]
    run.run(c["section"], spec, bins_of(spec), [tuple(r) for r in c["records"]], c["symmetric_upper"], c["form"],
            c["value_columns"], c["dtypes"], c["pass_dtypes"], c["h5opts"], c["metadata"], c["assembly"], c["group"])
    for v in B.violations:
        r = json.load(open(v["replay"]))
        print("FAIL", r["contract"], "\n  observed:", r["observed"], "\n  expected:", r["expected"], "\n  signature:", r["signature"])
    print("contracts evaluated:", B.contracts, "violations:", len(B.violations))
    return B.finish()


def main():
    B = Bounded("C01", "bounded/C01.py")
    try:
        return body(B)
    finally:
        shutil.rmtree(B.tmp, ignore_errors=True)  # also when the runner itself crashes


def body(B):
    T = B.thorough
    run = Runner(B)
    rng = B.rng
    if B.replay_file:
        return replay(B, run)
    nA_sym = 3
    nA_sym_quick_cap = 4                   # quick: symmetric n=3 0/1/2-valued with <= 4 non-zeros + ALL 0/1 matrices
    nA_sq_all = 2
    nA_sq_cap = (3, 4 if T else 2)         # square n=3: all matrices with <= cap non-zeros
    nA_sym_cap = (4, 4) if T else None      # thorough: symmetric n=4 with <= 4 non-zeros
    nB = 4
    maxbins_C = 6 if T else 5
    counts_doc = range(2, 13) if T else (2, 3, 4, 5, 9, 10)
    B.bound = (
        f"A: ALL 0/1/2-valued matrices: symmetric-upper on n<={nA_sym} bins" + ("" if T else f" (n={nA_sym}: all 0/1 matrices and all 0/1/2 with <={nA_sym_quick_cap} non-zeros)") + f", square on n<={nA_sq_all} bins, square n={nA_sq_cap[0]} "
        f"with <={nA_sq_cap[1]} non-zeros" + (f", symmetric n={nA_sym_cap[0]} with <={nA_sym_cap[1]} non-zeros" if T else "")
        + " (input form and h5opts rotated over the enumeration, chunk sizes seeded); "
        f"B: 5-7 named matrices on {nB} bins x 2 modes x ALL input forms: frame, dict, iterator of frames / of dicts / list of frames "
        "with every uniform chunk size 1..nnz+1, empty chunks at start/middle/end, zero chunks, ALL compositions of nnz<=5 records, "
        "ArrayLoader (ndarray and h5py dataset) with every chunk size 1..n+1; "
        f"C: ALL bin layouts with <=3 chromosomes and <={maxbins_C} bins x {{fixed short-last, fixed exact, variable}} x 2 modes; "
        "D: count dtype {int32,int64,float64} (extreme values) x extra columns {none, float, int64, both, extra-without-count} x 4 forms x 2 modes; "
        "E: 4 h5opts sets x 2 modes x 3 matrices x 2 forms; F: 16 JSON metadata documents and 14 assembly names; "
        "G: ALL row orders of a 4-record frame/dict; "
        f"H: unordered (default) path of create_cooler: chunk counts {list(counts_doc)} x max_merge {{1,2,3}} x 2 modes "
        f"(mergebuf {'x {2,1e6}' if T else 'alternating 2/1e6'}, frames/dicts and explicit/default ordered=False rotated; every 4th chunk empty, "
        "a pixel repeated across chunks) + single-pass / one-chunk / all-empty controls"
        + ("; thorough: + seeded random matrices on 5..8 bins with random layouts/forms/dtypes + 150 random unordered chunkings (2..14 chunks)" if T else ""))
    B.rule = ("case = (section, bin table, records, mode, input form+chunking, value columns+dtypes, h5opts, metadata, assembly, group); "
              "non-trivial when the stored matrix has >= 1 record (metadata/assembly contracts: when the document is non-empty); distinct by (contract, case)")

    # ---------------------------------------------------------------- A: all small matrices
    idx = 0
    plan = []
    for n in range(1, nA_sym + 1):
        plan.append((n, True, None if (T or n < nA_sym) else nA_sym_quick_cap))
    for n in range(1, nA_sq_all + 1):
        plan.append((n, False, None))
    plan.append((nA_sq_cap[0], False, nA_sq_cap[1]))
    if nA_sym_cap:
        plan.append((nA_sym_cap[0], True, nA_sym_cap[1]))
    for n, symm, cap in plan:
        spec, bins = default_layout(n)
        mats = all_matrices(n, symm, (1, 2), cap)
        if symm and n == nA_sym and cap is not None:  # quick: + every support pattern (all 0/1 matrices) above the cap
            mats = itertools.chain(mats, (m for m in all_matrices(n, symm, (1,), None) if len(m) > cap))
        for recs in mats:
            form = rotate_form(idx, len(recs), n, rng)
            if form[0] == "array-loader" and not symm and any(j < i for i, j, _ in recs):
                form = ["frame", None]  # the dense loader is an upper-triangle sparsifier: not an input form for lower entries
            run.run("A", spec, bins, recs, symm, form, h5opts=H5SETS[(idx // 6) % 3], pass_dtypes=False)
            idx += 1

    # ---------------------------------------------------------------- B: input forms x chunkings
    n = nB
    spec, bins = default_layout(n)
    for symm in (True, False):
        for mname, recs in named_matrices(n, symm, rng):
            nnz = len(recs)
            forms = [["frame", None], ["dict", None]]
            for k in range(1, nnz + 2):
                u = uniform_sizes(nnz, k) or [0]
                forms.append(["iter-frames", u])
                if k <= 2 or k == nnz + 1:
                    forms.append(["iter-dicts", u])
            u2 = uniform_sizes(nnz, 2) or [0]
            forms += [["iter-frames", [0, *u2]], ["iter-frames", [*u2, 0]], ["iter-dicts", [0, 0, *u2, 0]],
                      ["iter-frames", [*u2[:1], 0, 0, *u2[1:]]], ["list-frames", u2], ["iter-dicts", [*u2[:1], 0, *u2[1:]]]]
            if nnz == 0:
                forms += [["iter-frames", []], ["iter-dicts", []], ["list-frames", []]]  # a stream of zero chunks
            if symm or all(i <= j for i, j, _ in recs):
                forms += [["array-loader", k] for k in range(1, n + 2)] + [["array-loader-h5", 1], ["array-loader-h5", 3]]
            for form in forms:
                run.run("B:" + mname, spec, bins, recs, symm, form)
    # all compositions (with every single empty-chunk insertion) of a 4- and a 5-record matrix
    for symm, recs in ((True, [(0, 0, 1), (0, 3, 2), (1, 2, 3), (3, 3, 4)]),
                       (False, [(0, 1, 1), (1, 0, 2), (2, 2, 3), (3, 0, 4), (3, 3, 5)])):
        nnz = len(recs)
        for comp in compositions(nnz, nnz):
            run.run("B:compositions", spec, bins, recs, symm, ["iter-frames", comp])
            if len(comp) <= 3 or T:
                for pos in range(len(comp) + 1):
                    run.run("B:compositions", spec, bins, recs, symm, ["iter-dicts", comp[:pos] + [0] + comp[pos:]])

    # ---------------------------------------------------------------- C: bin layouts
    for nb in range(1, maxbins_C + 1):
        for parts in compositions(nb, 3):
            for kind in ("fixed-short-last", "fixed-exact", "variable"):
                spec, bins = make_layout(parts, kind)
                for symm in (True, False):
                    cells = cells_of(nb, symm)
                    pick = {cells[rng.randrange(len(cells))] for _ in range(nb + 1)} | {(nb - 1, nb - 1), (0, nb - 1)}
                    recs = [(i, j, 1 + (i * 5 + j * 3) % 9) for (i, j) in sorted(pick)]
                    form = rotate_form(rng.randrange(4), len(recs), nb, rng)
                    run.run("C:" + kind, spec, bins, recs, symm, form, group=None if (nb + len(parts)) % 3 else "/a/b")

    # ---------------------------------------------------------------- D: value dtypes x extra columns
    n = 4
    spec, bins = default_layout(n)
    VALS = {"int32": [2 ** 31 - 1, -(2 ** 31), 1, 0, -7, 65536, 3, 12],
            "int64": [2 ** 53 + 1, 2 ** 62, -(2 ** 63), 0, -5, 2 ** 31, 7, 2 ** 40 + 1],
            "float64": [0.5, -2.25, 1e-300, 1.7976931348623157e308, 5e-324, 0.0, 0.1, 1 / 3]}
    EXTRA = {"e_float": ("float64", [0.25, -1.5, 1e100, 3.0, 0.1, 2.0 ** -40, 7.75, -0.5]),
             "e_int": ("int64", [2 ** 53 + 1, -3, 0, 2 ** 62 + 1, 9, 10, 11, 2 ** 33])}
    for symm in (True, False):
        cells = [(0, 0), (0, 3), (1, 2), (2, 2), (3, 3)] if symm else [(0, 0), (0, 3), (1, 2), (2, 0), (2, 2), (3, 1), (3, 3)]
        for cdt in ("int32", "int64", "float64"):
            for extras in ([], ["e_float"], ["e_int"], ["e_float", "e_int"]):
                for with_count in ((True, False) if extras else (True,)):
                    valcols = (["count"] if with_count else []) + extras
                    vdt = {"count": cdt, **{e: EXTRA[e][0] for e in extras}}
                    vdt = {c: vdt[c] for c in valcols}
                    recs = []
                    for t, (i, j) in enumerate(cells):
                        vals = [VALS[cdt][t % 8]] if with_count else []
                        vals += [EXTRA[e][1][t % 8] for e in extras]
                        recs.append((i, j, *vals))
                    forms = [["frame", None], ["dict", None], ["iter-frames", [2, 0, len(recs) - 2]], ["iter-dicts", [1] * len(recs)]]
                    if valcols == ["count"]:
                        forms.append(["array-loader", 3])
                    elif not T:
                        forms.remove(["dict", None])
                    for form in forms:
                        if form[0].startswith("array-loader"):
                            # the dense loader cannot express explicit zeros or lower entries
                            rr = [r for r in recs if r[2] != 0 and r[0] <= r[1]]
                        else:
                            rr = recs
                        # e_float alone exercises the documented default (float64) for undeclared extra columns
                        pd_ok = not (extras == ["e_float"] and cdt == "int32" and with_count)
                        run.run("D", spec, bins, rr, symm, form, valcols, vdt, pass_dtypes=pd_ok)

    # ---------------------------------------------------------------- E: HDF5 filter options
    for symm in (True, False):
        for mname, recs in named_matrices(n, symm, rng)[:3]:
            for h in H5SETS:
                for form in (["frame", None], ["iter-frames", uniform_sizes(len(recs), 3) + [0]]):
                    run.run("E:" + mname, spec, bins, recs, symm, form, h5opts=h)

    # ---------------------------------------------------------------- F: metadata and assembly
    recs = [(0, 0, 1), (0, 3, 2), (1, 2, 3), (3, 3, 4)]
    for t, md in enumerate(METADATA):
        run.run("F:metadata", spec, bins, recs, True, rotate_form(t, len(recs), n, rng), metadata=md,
                assembly=ASSEMBLIES[t % 8], group=None if t % 2 else "/x")
    for t, asm in enumerate(ASSEMBLIES):
        run.run("F:assembly", spec, bins, recs if t % 3 else [], bool(t % 2), rotate_form(t, len(recs) if t % 3 else 0, n, rng),
                metadata=METADATA[(t + 1) % 8], assembly=asm)

    # ---------------------------------------------------------------- G: any row order of a frame / dict
    # create_cooler is documented to sort a data frame / dict itself; the matrix denoted by the rows is the same
    # whatever their order, so the same records must come back (sorted).  Streams are NOT permuted: the property
    # quantifies over ordered streams only.
    base = [(0, 0, 1), (0, 3, 2), (0, 1, 5), (2, 2, 3)]
    srt = sorted(base)
    for perm in itertools.permutations(base):
        for fname in ("frame", "dict"):
            run.run("G:row-order", spec, bins, list(perm), True, [fname, None], expected_recs=srt)

    # ---------------------------------------------------------------- H: chunks through the unordered (default) path
    # create_cooler(uri, bins, iter(chunks)) sorts every chunk into a temporary cooler and merges them; with more chunks
    # than max_merge the merge is done in two passes.  Whatever the chunk count, the result is the aggregate of ALL chunks.
    spec, bins = default_layout(4)
    counts_H = range(2, 13) if T else (2, 3, 4, 5, 9, 10)
    idx = 0
    for symm in (True, False):
        cells = cells_of(4, symm)
        for k in counts_H:
            for mm in (1, 2, 3):
                for mb in ((2, 10 ** 6) if T else ((2, 10 ** 6)[(idx + k) % 2],)):
                    chunks = unordered_chunks(cells, k, idx % 4)
                    form = ["unordered-frames" if idx % 3 else "unordered-dicts",
                            dict(sizes=[len(c) for c in chunks], max_merge=mm, mergebuf=mb, explicit_ordered_false=bool(idx % 2))]
                    run.run("H:unordered", spec, bins, [r for c in chunks for r in c], symm, form, pass_dtypes=False)
                    idx += 1
        # controls: single pass (max_merge >= nchunks), only empty chunks, one chunk
        for k, mm in ((3, 200), (9, 9), (1, 1)):
            chunks = unordered_chunks(cells, k, 1)
            run.run("H:unordered", spec, bins, [r for c in chunks for r in c], symm,
                    ["unordered-frames", dict(sizes=[len(c) for c in chunks], max_merge=mm, mergebuf=10 ** 6, explicit_ordered_false=False)],
                    pass_dtypes=False)
        run.run("H:unordered", spec, bins, [], symm,
                ["unordered-frames", dict(sizes=[0, 0, 0], max_merge=2, mergebuf=10 ** 6, explicit_ordered_false=True)], pass_dtypes=False)

    # ---------------------------------------------------------------- thorough: seeded sampling beyond the bound
    if T:
        B.exhaustive = False  # the sampled part is not exhaustive (sections A-G are)
        for t in range(2000):
            nb = rng.randint(5, 8)
            parts = rng.choice(list(compositions(nb, 3)))
            kind = rng.choice(["fixed-short-last", "fixed-exact", "variable"])
            spec_, bins_ = make_layout(parts, kind)
            symm = rng.random() < 0.5
            cells = cells_of(nb, symm)
            dens = rng.choice([0.0, 0.1, 0.3, 0.6, 1.0])
            pick = sorted(c for c in cells if rng.random() < dens)
            cdt = rng.choice(["int32", "int64", "float64"])
            extras = rng.choice([[], [], ["e_float"], ["e_int"], ["e_float", "e_int"]])
            valcols = ["count", *extras]
            vdt = {"count": cdt, **{e: EXTRA[e][0] for e in extras}}
            recs_ = []
            for (i, j) in pick:
                vals = [rng.choice(VALS[cdt][:3] + [1, 2, 3]) if cdt != "float64" else rng.choice([0.5, 1.25, 3.0, 1 / 3])]
                vals += [rng.choice(EXTRA[e][1]) for e in extras]
                recs_.append((i, j, *vals))
            form = rotate_form(rng.randrange(6), len(recs_), nb, rng)
            if form[0] == "array-loader" and (extras or (not symm and any(r[0] > r[1] for r in recs_))):
                form = ["iter-frames", random_sizes(rng, len(recs_))]
            run.run("S", spec_, bins_, recs_, symm, form, valcols, vdt, h5opts=rng.choice(H5SETS),
                    metadata=rng.choice([None, *METADATA[:8]]), assembly=rng.choice([None, *ASSEMBLIES[:8]]),
                    group=rng.choice([None, "/g", "/a/b/c"]))
    if T:
        for t in range(150):
            nb = rng.randint(3, 6)
            spec_, bins_ = default_layout(nb)
            symm = rng.random() < 0.5
            cells = cells_of(nb, symm)
            k = rng.randint(2, 14)
            chunks = []
            for _ in range(k):
                pick = sorted(rng.sample(cells, rng.randint(0, min(4, len(cells)))))
                chunks.append([(i, j, rng.randint(1, 5)) for (i, j) in pick])
            form = [rng.choice(["unordered-frames", "unordered-dicts"]),
                    dict(sizes=[len(c) for c in chunks], max_merge=rng.choice([1, 2, 3, 4, 200]), mergebuf=rng.choice([1, 2, 5, 10 ** 6]),
                         explicit_ordered_false=rng.random() < 0.5)]
            run.run("S:unordered", spec_, bins_, [r for c in chunks for r in c], symm, form, pass_dtypes=False)
    run.R.dump()
    return B.finish()


if __name__ == "__main__":
    sys.exit(main())
