"""C03 bounded stand-in: the real matrix selector against numpy slicing of the
full matrix, for ALL windows in [0,n]^4 (n <= bound)."""
import sys, os
sys.path.insert(0, os.path.dirname(os.path.dirname(os.path.abspath(__file__))))
import numpy as np
import h5py
import cooler
from bounded.common import *


def main():
    B = Bounded("C03", "bounded/C03.py")
    nmax = 5 if B.thorough else 4
    B.bound = f"all windows (i0<=i1, j0<=j1) in [0,n]^4 for n<={nmax} bins; 5 matrices x 2 storage modes x chunksize in " \
              f"{{1,2,nnz+1}} x dense/sparse/pixels; slice spellings and 3 store forms on one matrix"
    B.rule = "case = (matrix, mode, window, chunksize, output form); non-trivial when the window is non-empty; distinct by case"
    for n in ([nmax] if not B.thorough else [3, nmax]):
        bins = pd.DataFrame({"chrom": ["c1"] * n, "start": np.arange(n) * 10, "end": np.arange(1, n + 1) * 10})
        for mname, A in matrices(n, B.rng, 5):
            for symm in (True, False):
                pix = pixels_from_dense(A, symm)
                p = make_cooler(B.path(f"{mname}-{n}-{symm}.cool"), bins, pix, symm)
                F = full_matrix(pix, n, symm)
                nnz = len(pix)
                clr = cooler.Cooler(p)
                for cs in sorted({1, 2, nnz + 1}):
                    sel_d = clr.matrix(balance=False, chunksize=cs)
                    sel_s = clr.matrix(balance=False, sparse=True, chunksize=cs)
                    sel_p = clr.matrix(balance=False, as_pixels=True, chunksize=cs)
                    for (i0, i1, j0, j1) in all_windows(n):
                        case = dict(matrix=mname, n=n, symmetric_upper=symm, window=[i0, i1, j0, j1], chunksize=cs)
                        nt = i1 > i0 and j1 > j0
                        exp = F[i0:i1, j0:j1]
                        got = B.guarded("dense==slice-of-full", case, lambda: sel_d[i0:i1, j0:j1])
                        if got is not None:
                            B.check("dense==slice-of-full", got.shape == exp.shape and np.array_equal(got, exp), case,
                                    got.tolist(), exp.tolist(), nt)
                        if cs == 2 or B.thorough:
                            got = B.guarded("sparse==slice-of-full", case, lambda: sel_s[i0:i1, j0:j1])
                            if got is not None:
                                # duplicates in a COO matrix are summed by toarray(): exactly-once => equal; also check no duplicate coordinates
                                coords = list(zip(got.row.tolist(), got.col.tolist()))
                                B.check("sparse==slice-of-full",
                                        got.shape == exp.shape and np.array_equal(got.toarray(), exp) and len(coords) == len(set(coords)),
                                        case, got.toarray().tolist(), exp.tolist(), nt)
                            got = B.guarded("pixels==stored-records-in-window", case, lambda: sel_p[i0:i1, j0:j1])
                            if got is not None:
                                m = (pix.bin1_id >= i0) & (pix.bin1_id < i1) & (pix.bin2_id >= j0) & (pix.bin2_id < j1)
                                e = pix[m]
                                same = (got["bin1_id"].tolist() == e["bin1_id"].tolist()
                                        and got["bin2_id"].tolist() == e["bin2_id"].tolist() and got["count"].tolist() == e["count"].tolist())
                                B.check("pixels==stored-records-in-window", same, case, got.values.tolist(), e.values.tolist(), nt)
        # slice spellings + store forms on the dense symmetric matrix
        A = matrices(n, B.rng, 5)[2][1]
        pix = pixels_from_dense(A, True)
        p = make_cooler(B.path(f"spell-{n}.cool"), bins, pix, True)
        F = full_matrix(pix, n, True)
        with h5py.File(p, "r") as h5:
            stores = {"path": cooler.Cooler(p), "uri": cooler.Cooler(p + "::/"), "handle": cooler.Cooler(h5)}
            bounds = [None] + list(range(-n, n + 1))
            for sname, clr in stores.items():
                sel = clr.matrix(balance=False)
                for a in bounds:
                    for b in bounds:
                        lo_, hi_, _ = slice(a, b).indices(n)
                        if lo_ > hi_:
                            # reversed (empty) range: outside the property's quantifier (windows i0<=i1);
                            # the library raises ValueError there where arrays give an empty block (DESIGN.md, observation)
                            continue
                        case = dict(store=sname, n=n, rows=[a, b])
                        exp = F[a:b, :]
                        got = B.guarded("slice-spelling-as-arrays", case, lambda: sel[a:b, :])
                        if got is not None:
                            B.check("slice-spelling-as-arrays", got.shape == exp.shape and np.array_equal(got, exp), case,
                                    got.tolist(), exp.tolist(), exp.size > 0)
                        if sname == "path":
                            exp = F[:, a:b]
                            got = B.guarded("slice-spelling-as-arrays", dict(case, axis="cols"), lambda: sel[:, a:b])
                            if got is not None:
                                B.check("slice-spelling-as-arrays", got.shape == exp.shape and np.array_equal(got, exp),
                                        dict(case, axis="cols"), got.tolist(), exp.tolist(), exp.size > 0)
                for s in range(-n, n):
                    case = dict(store=sname, n=n, scalar=s)
                    got = B.guarded("scalar-selects-one-row", case, lambda: sel[s])
                    if got is not None:
                        exp = F[s:s + 1 if s != -1 else None, :]
                        B.check("scalar-selects-one-row", got.shape == exp.shape and np.array_equal(got, exp), case,
                                got.tolist(), exp.tolist())
                    got = B.guarded("scalar-selects-one-row", dict(case, form="pair"), lambda: sel[s, s])
                    if got is not None:
                        B.check("scalar-selects-one-row", got.shape == (1, 1) and got[0, 0] == F[s, s], dict(case, form="pair"),
                                got.tolist(), float(F[s, s]))
    return B.finish()


if __name__ == "__main__":
    sys.exit(main())
