"""C07 bounded stand-in: merge_coolers / `cooler merge` on the REAL code against a plain-python element-wise
aggregate of the input pixel tables.

Every evaluation is described by a JSON-able *spec*; the input coolers are written with create_cooler(ordered=True)
(cached per content), the merge is run, and the raw HDF5 datasets of the output are compared with the aggregate.

Property clauses -> contracts
  every pixel == aggregate over the inputs, every requested column   merge==elementwise-aggregate (+ merge-completes)
  recorded total == sum of the input totals (+ index / nnz)          merged-total-and-index-consistent
  independent of input order                                          independent-of-input-order
  independent of the merge buffer                                     independent-of-mergebuf
  associative (nested merges)                                         merge-associative
  different bin table / resolution / storage mode / column refused    incompatible-inputs-refused
  never silently different from the exact aggregate (dtype limits)    value-exact-or-error
  CLI                                                                 cli-merge==elementwise-aggregate
"""
import sys, os
sys.path.insert(0, os.path.dirname(os.path.dirname(os.path.abspath(__file__))))
import hashlib
import itertools
import json
import shutil
import traceback
import warnings
warnings.filterwarnings("ignore")
import numpy as np
import pandas as pd
import h5py
import cooler
from bounded.common import *


# ---------------------------------------------------------------- bookkeeping
class B7(Bounded):
    """Bounded with a per-signature cap on recorded violations (a known failure class must not use up the global
    cap of common.Bounded and hide a new class) and failure counts per signature."""
    per_signature = 2

    def __init__(self, *a):
        super().__init__(*a)
        self.max_violations = 60
        self.sig_counts = {}

    def fail(self, contract, case, observed, expected, signature=None):
        sig = signature or contract
        self.sig_counts[sig] = self.sig_counts.get(sig, 0) + 1
        if self.sig_counts[sig] > self.per_signature:
            self.evaluations += 1
            self.contracts[contract] = self.contracts.get(contract, 0) + 1
            return
        super().fail(contract, case, observed, expected, sig)

    def finish(self):
        shutil.rmtree(self.tmp, ignore_errors=True)
        out = {"property": self.pid, "tier": self.tier, "seed": self.seed, "bound": self.bound, "rule": self.rule,
               "evaluations": self.evaluations, "distinct_nontrivial": len(self.nontrivial),
               "exhaustive": self.exhaustive, "samples": self.samples[:8], "violations": self.violations,
               "failures_by_signature": self.sig_counts,
               "contracts_evaluated": self.contracts, "wall_s": round(time.time() - self.t0, 2)}
        print(json.dumps(out, default=str))
        return 0


def R(contract, ok, case, observed=None, expected=None, nontrivial=True, signature=None):
    return dict(contract=contract, ok=bool(ok), case=case, observed=observed, expected=expected,
                nontrivial=bool(nontrivial), signature=signature)


def feed(B, results):
    for r in results:
        if r["ok"]:
            B.ok(r["contract"], r["case"], r["nontrivial"])
        else:
            B.fail(r["contract"], r["case"], r["observed"], r["expected"], r["signature"])


# ---------------------------------------------------------------- bin tables
def _tab(rows):
    return pd.DataFrame(rows, columns=["chrom", "start", "end"])


BINS = {
    # the two common tables (3 bins): fixed width (merger compares binsize+chromsizes) and variable (compares tables)
    "fix3": _tab([("c1", 0, 10), ("c1", 10, 20), ("c2", 0, 10)]),
    "var3": _tab([("c1", 0, 3), ("c1", 3, 10), ("c1", 10, 12)]),
    # tables that differ from fix3 / var3 in one respect
    "fix3-binsize5": _tab([("c1", 0, 5), ("c1", 5, 10), ("c1", 10, 15), ("c1", 15, 20), ("c2", 0, 5), ("c2", 5, 10)]),
    "fix3-chromlen": _tab([("c1", 0, 10), ("c1", 10, 20), ("c2", 0, 9)]),
    "fix3-chromname": _tab([("c1", 0, 10), ("c1", 10, 20), ("c3", 0, 10)]),
    "fix3-chromorder": _tab([("c2", 0, 10), ("c1", 0, 10), ("c1", 10, 20)]),
    "fix3-fewer-chroms": _tab([("c1", 0, 10), ("c1", 10, 20)]),
    "var3-other-edges": _tab([("c1", 0, 4), ("c1", 4, 10), ("c1", 10, 12)]),
    "var4": _tab([("c1", 0, 3), ("c1", 3, 10), ("c1", 10, 11), ("c1", 11, 12)]),
    # two DIFFERENT 4-bin tables with the same chromosome lengths whose all-but-last bins are all 10 wide
    "nominal10-a": _tab([("c1", 0, 10), ("c1", 10, 30), ("c2", 0, 10), ("c2", 10, 20)]),
    "nominal10-b": _tab([("c1", 0, 10), ("c1", 10, 20), ("c1", 20, 30), ("c2", 0, 20)]),
}


def keys_for(n, mode):
    return [(i, j) for i in range(n) for j in range(n) if mode == "square" or i <= j]


# ---------------------------------------------------------------- inputs
def inp(pixels, bins="fix3", mode="upper", dtype="int32", score=False):
    """description of one input cooler; pixels = [[bin1, bin2, count]] (score column = count/2 if score)"""
    num = float if str(dtype).startswith("float") else int
    return dict(bins=bins, mode=mode, dtype=dtype, score=bool(score),
                pixels=sorted([int(p[0]), int(p[1]), num(p[2])] for p in pixels))


def exact_total(inputs):
    """sum of all input counts; every float used in this runner is a small dyadic rational, so python's sum is exact
    and independent of the order of summation"""
    return sum(p[2] for d in inputs for p in d["pixels"])


class InputMismatch(Exception):
    pass


_CACHE = {}


def build_input(d, workdir):
    key = hashlib.md5(json.dumps(d, sort_keys=True).encode()).hexdigest()[:16]
    if key in _CACHE and os.path.exists(_CACHE[key]):
        return _CACHE[key]
    os.makedirs(os.path.join(workdir, "inputs"), exist_ok=True)
    p = os.path.join(workdir, "inputs", key + ".cool")
    px = d["pixels"]
    dt = np.dtype(d["dtype"])
    df = pd.DataFrame({"bin1_id": np.array([r[0] for r in px], dtype=np.int64),
                       "bin2_id": np.array([r[1] for r in px], dtype=np.int64),
                       "count": np.array([r[2] for r in px], dtype=dt)})
    kw = dict(dtypes={"count": dt})
    if d["score"]:
        df["score"] = np.array([r[2] / 2 for r in px], dtype=np.float64)
        kw = dict(columns=["count", "score"], dtypes={"count": dt, "score": np.float64})
    symm = d["mode"] == "upper"
    cooler.create_cooler(p, BINS[d["bins"]], df, ordered=True, symmetric_upper=symm, triucheck=symm, **kw)
    # the written input must hold exactly what the description says (guards the runner itself)
    with h5py.File(p, "r") as f:
        got = [list(t) for t in zip(f["pixels/bin1_id"][:].tolist(), f["pixels/bin2_id"][:].tolist(), f["pixels/count"][:].tolist())]
        if not (got == px and f["pixels/count"].dtype == dt):
            raise InputMismatch(f"input cooler holds {got} dtype {f['pixels/count'].dtype}; described {px} {dt}")
    _CACHE[key] = p
    return p


AGG = {"sum": sum, "max": max, "min": min}


def aggregate(inputs, columns, agg):
    """the specification: per pixel, the aggregate of the values of the inputs that hold the pixel (python numbers)"""
    vals = {}
    for d in inputs:
        for b1, b2, c in d["pixels"]:
            vals.setdefault((b1, b2), []).append(c)
    out = {}
    for col in columns:
        f = AGG[(agg or {}).get(col, "sum")]
        if col == "count":
            out[col] = [f(vals[k]) for k in sorted(vals)]
        else:
            out[col] = [f([v / 2 for v in vals[k]]) for k in sorted(vals)]
    return [list(k) for k in sorted(vals)], out


def read_raw(path, columns=("count",)):
    with h5py.File(path, "r") as f:
        out = dict(keys=[list(t) for t in zip(f["pixels/bin1_id"][:].tolist(), f["pixels/bin2_id"][:].tolist())],
                   cols={c: f["pixels"][c][:].tolist() for c in columns},
                   dtypes={c: str(f["pixels"][c].dtype) for c in columns},
                   lens={c: len(f["pixels"][c]) for c in f["pixels"]},
                   offset=f["indexes/bin1_offset"][:].tolist(),
                   attrs={k: (v.item() if hasattr(v, "item") else v) for k, v in f.attrs.items()},
                   bins=list(zip(f["bins/start"][:].tolist(), f["bins/end"][:].tolist())),
                   pixel_columns=sorted(f["pixels"].keys()))
    return out


def empty_epoch_expected(L, b):
    """LABELLING ONLY (never decides pass/fail): does a buffer-bounded row partition of a merge whose combined number of
    records per bin1 row is L contain an epoch without records?  With the documented greedy rule (an epoch is extended
    while it holds <= b records; a single row with > b records forms its own epoch) an epoch starts on an empty row only at
    row 0 or right after an over-buffer row, and it stays empty iff the next non-empty row is itself over-buffer."""
    for r in range(len(L)):
        if L[r] > b and r > 0 and L[r - 1] == 0:
            e = r
            while e > 0 and L[e - 1] == 0:
                e -= 1
            if e == 0 or L[e - 1] > b:
                return True
    return False


def _rowlens(tables, distinct=False):
    n = max([len(BINS[d["bins"]]) for d in tables] + [1])
    L = [0] * n
    seen = set()
    for d in tables:
        for p in d["pixels"]:
            if distinct and (p[0], p[1]) in seen:
                continue
            seen.add((p[0], p[1]))
            L[p[0]] += 1
    return L


def family_kind(inputs, mergebuf=None, nested=False):
    """kind of input, computed from the input alone; used in failure signatures"""
    if all(not d["pixels"] for d in inputs):
        return "all-inputs-empty"
    if mergebuf is not None:
        if nested:
            a, b, c = inputs
            if any(all(not d["pixels"] for d in pair) for pair in ((a, b), (b, c))):
                return "all-inputs-empty"          # one of the inner merges has only empty inputs
            e = (empty_epoch_expected(_rowlens([a, b]), mergebuf) or empty_epoch_expected(_rowlens([b, c]), mergebuf)
                 or empty_epoch_expected(_rowlens([a, b, c]), mergebuf)
                 or empty_epoch_expected([x + y for x, y in zip(_rowlens([a, b], True), _rowlens([c]))], mergebuf)
                 or empty_epoch_expected([x + y for x, y in zip(_rowlens([a]), _rowlens([b, c], True))], mergebuf))
        else:
            e = empty_epoch_expected(_rowlens(inputs), mergebuf)
        if e:
            return "merge-epoch-without-records"
    return "k=1" if len(inputs) == 1 else "k>=2"


def exc_signature(contract, e, kind):
    fn = "?"
    for fr in traceback.extract_tb(e.__traceback__):
        f = fr.filename.replace("\\", "/")
        if "/cooler/" in f:
            fn = f"{os.path.basename(f)}:{fr.name}"
    return f"{contract}:{type(e).__name__}@{fn}:{kind}"


def do_merge(out, paths, mergebuf, columns=None, agg=None, dtypes=None, via="api", fields=None):
    """run the real merge; returns None or raises.  API: dtypes=None is not passed, dtypes={} IS passed as an empty dict.
    CLI: `fields` (raw --field strings) overrides the fields derived from columns/agg/dtypes"""
    if via == "api":
        kw = {}
        if columns is not None:
            kw["columns"] = list(columns)
        if agg:
            kw["agg"] = dict(agg)
        if dtypes is not None:
            kw["dtypes"] = {k: np.dtype(v) for k, v in dtypes.items()}
        cooler.merge_coolers(out, list(paths), mergebuf, **kw)
        return
    from click.testing import CliRunner
    from cooler.cli import cli
    args = ["merge", out] + list(paths) + ["-c", str(mergebuf)]
    if fields is not None:
        for fld in fields:
            args += ["--field", fld]
    for col in ([] if fields is not None else (columns or (["count"] if (dtypes or agg) else []))):
        props = []
        if dtypes and col in dtypes:
            props.append(f"dtype={dtypes[col]}")
        if agg and col in agg:
            props.append(f"agg={agg[col]}")
        args += ["--field", col + (":" + ",".join(props) if props else "")]
    r = CliRunner().invoke(cli, args)
    if r.exception is not None and not isinstance(r.exception, SystemExit):
        raise r.exception
    if r.exit_code != 0:
        raise RuntimeError(f"cooler merge exit {r.exit_code}: {r.output[-300:]}")


# ---------------------------------------------------------------- spec kinds
def merge_spec(inputs, mergebuf, columns=None, agg=None, via="api"):
    return dict(kind="merge", inputs=inputs, mergebuf=int(mergebuf), columns=columns, agg=agg, via=via)


def run_merge(spec, workdir):
    """one merge; returns (results, table) where table is the raw output (for the cross-run clauses) or None"""
    res = []
    inputs = spec["inputs"]
    paths = [build_input(d, workdir) for d in inputs]
    columns = spec["columns"] or ["count"]
    agg = spec["agg"] or {}
    out = os.path.join(workdir, "out.cool")
    if os.path.exists(out):
        os.remove(out)
    keys, cols = aggregate(inputs, columns, agg)
    nt = len(keys) > 0
    kind = family_kind(inputs, spec["mergebuf"])
    cname = "merge" if spec["via"] == "api" else "cli-merge"
    try:
        do_merge(out, paths, spec["mergebuf"], spec["columns"], spec["agg"], None, spec["via"])
    except Exception as e:
        res.append(R(f"{cname}-completes", False, spec, f"{type(e).__name__}: {e}\n{traceback.format_exc(limit=-4)}", "no exception",
                     nt, exc_signature(f"{cname}-completes", e, kind)))
        return res, None
    res.append(R(f"{cname}-completes", True, spec, nontrivial=nt))
    raw = read_raw(out, columns)
    same = raw["keys"] == keys and all(raw["cols"][c] == cols[c] for c in columns)
    res.append(R(f"{cname}==elementwise-aggregate", same, spec, dict(keys=raw["keys"], cols=raw["cols"]), dict(keys=keys, cols=cols), nt,
                 f"{cname}==elementwise-aggregate:{kind}"))
    # total / index / bins: recomputed from the inputs' raw files and the expected table
    n = len(BINS[inputs[0]["bins"]])
    # the input totals are taken as the exact sums of the input counts (what a correct input records), so that this clause
    # judges the merge even if the create path that wrote the inputs mis-records their totals
    in_tot = exact_total(inputs)
    exp_off = [sum(1 for k in keys if k[0] < i) for i in range(n + 1)]
    a = raw["attrs"]
    if "count" in columns and agg.get("count", "sum") == "sum":
        exp_total = in_tot                                 # the property clause: total == sum of the input totals
    elif "count" in columns:
        exp_total = sum(cols["count"])                     # other aggregate: the total of what is stored
    else:
        exp_total = a.get("sum")
    symm = inputs[0]["mode"] == "upper"
    info_ok = (a.get("sum") == exp_total and a.get("nnz") == len(keys) and raw["offset"] == exp_off and a.get("nbins") == n
               and set(raw["lens"].values()) == {len(keys)}
               and a.get("storage-mode") == ("symmetric-upper" if symm else "square")
               and raw["bins"] == [(int(s), int(e)) for s, e in zip(BINS[inputs[0]["bins"]]["start"], BINS[inputs[0]["bins"]]["end"])])
    res.append(R("merged-total-and-index-consistent", info_ok, spec,
                 dict(sum=a.get("sum"), nnz=a.get("nnz"), offset=raw["offset"], lens=raw["lens"], mode=a.get("storage-mode")),
                 dict(sum=exp_total, nnz=len(keys), offset=exp_off), nt, f"merged-total-and-index-consistent:{kind}"))
    return res, dict(keys=raw["keys"], cols=raw["cols"], sum=a.get("sum"))


def run_valuetype(spec, workdir):
    """value columns wider than the int32 default (fractional float64 counts, int64 counts beyond 2**31) with every way of
    NOT asking for a count dtype (dtypes=None, dtypes={}, a dtypes dict / --field list that names only another column):
    the stored values and the recorded total are the exact aggregate, and the stored dtype can hold every value of the
    inputs' common dtype (and is the requested one for a column whose dtype was requested)"""
    res = []
    inputs = spec["inputs"]
    paths = [build_input(d, workdir) for d in inputs]
    columns = spec["columns"] or ["count"]
    agg = spec.get("agg") or {}
    out = os.path.join(workdir, "out.cool")
    if os.path.exists(out):
        os.remove(out)
    keys, cols = aggregate(inputs, columns, agg)
    sig = f"output-value-type-holds-exact-aggregate:{spec['valuekind']}"
    try:
        do_merge(out, paths, spec["mergebuf"], spec["columns"], spec.get("agg"), spec["dtypes"], spec["via"], spec.get("fields"))
    except Exception as e:
        res.append(R("output-value-type-holds-exact-aggregate", False, spec, f"{type(e).__name__}: {e}\n{traceback.format_exc(limit=-4)}",
                     "exact aggregate stored (every value fits the inputs' own dtype)", True, sig + ":raised"))
        return res, None
    raw = read_raw(out, columns)
    requested = dict(spec["dtypes"] or {})
    for fld in (spec.get("fields") or []):
        for prop in fld.split(":", 1)[1].split(",") if ":" in fld else []:
            if prop.startswith("dtype="):
                requested[fld.split(":")[0]] = prop[6:]
    dtype_ok = {}
    for c in columns:
        stored = np.dtype(raw["dtypes"][c])
        if c in requested:
            dtype_ok[c] = stored == np.dtype(requested[c])
        else:
            common = np.result_type(*[np.dtype(d["dtype"]) if c == "count" else np.dtype("float64") for d in inputs])
            dtype_ok[c] = bool(np.can_cast(common, stored, "safe"))
    tot = exact_total(inputs) if "count" in columns else raw["attrs"].get("sum")
    ok = (raw["keys"] == keys and all(raw["cols"][c] == cols[c] for c in columns) and all(dtype_ok.values())
          and raw["attrs"].get("sum") == tot)
    res.append(R("output-value-type-holds-exact-aggregate", ok, spec,
                 dict(keys=raw["keys"], cols=raw["cols"], dtypes=raw["dtypes"], sum=raw["attrs"].get("sum")),
                 dict(keys=keys, cols=cols, sum=tot, dtype="holds the inputs' common dtype / is the requested one"), True, sig))
    return res, None


def run_assoc(spec, workdir):
    """(a+b)+c == a+(b+c) == merge(a,b,c) == aggregate, with the nested results produced by the real merge"""
    res = []
    inputs = spec["inputs"]
    a, b, c = [build_input(d, workdir) for d in inputs]
    agg = spec["agg"]
    mb = spec["mergebuf"]
    keys, cols = aggregate(inputs, ["count"], agg)
    kind = family_kind(inputs, mb, nested=True)
    tmp = {k: os.path.join(workdir, f"assoc-{k}.cool") for k in ("ab", "bc", "ab_c", "a_bc", "abc")}
    try:
        do_merge(tmp["ab"], [a, b], mb, ["count"], agg)
        do_merge(tmp["ab_c"], [tmp["ab"], c], mb, ["count"], agg)
        do_merge(tmp["bc"], [b, c], mb, ["count"], agg)
        do_merge(tmp["a_bc"], [a, tmp["bc"]], mb, ["count"], agg)
        do_merge(tmp["abc"], [a, b, c], mb, ["count"], agg)
    except Exception as e:
        res.append(R("merge-completes", False, spec, f"{type(e).__name__}: {e}\n{traceback.format_exc(limit=-4)}", "no exception",
                     True, exc_signature("merge-completes", e, kind)))
        return res, None
    tabs = {k: read_raw(tmp[k]) for k in ("ab_c", "a_bc", "abc")}
    got = {k: dict(keys=t["keys"], count=t["cols"]["count"], sum=t["attrs"].get("sum")) for k, t in tabs.items()}
    tot = sum(cols["count"]) if (agg or {}).get("count", "sum") != "sum" else sum(p[2] for d in inputs for p in d["pixels"])
    exp = dict(keys=keys, count=cols["count"], sum=tot)
    ok = all(g == exp for g in got.values())
    res.append(R("merge-associative", ok, spec, got, exp, len(keys) > 0, f"merge-associative:{kind}"))
    for p in tmp.values():
        if os.path.exists(p):
            os.remove(p)
    return res, None


def run_incompatible(spec, workdir):
    """inputs that differ in bin table / resolution / storage mode / available columns: the merge must raise"""
    res = []
    paths = [build_input(d, workdir) for d in spec["inputs"]]
    out = os.path.join(workdir, "out.cool")
    if os.path.exists(out):
        os.remove(out)
    try:
        do_merge(out, paths, spec["mergebuf"], spec.get("columns"), None, None, spec["via"])
    except Exception as e:
        res.append(R("incompatible-inputs-refused", True, spec))
        return res, None
    raw = read_raw(out)
    res.append(R("incompatible-inputs-refused", False, spec, dict(merged_without_error=True, keys=raw["keys"], count=raw["cols"]["count"],
                                                                  bins=raw["bins"]), "an exception", True,
                 f"incompatible-inputs-refused:{spec['difference']}"))
    return res, None


def run_overflow(spec, workdir):
    """values at the limits of the column dtype: either the merge raises, or every stored value and the recorded total
    equal the exact (python integer) aggregate"""
    res = []
    inputs = spec["inputs"]
    paths = [build_input(d, workdir) for d in inputs]
    out = os.path.join(workdir, "out.cool")
    if os.path.exists(out):
        os.remove(out)
    agg = spec.get("agg")
    keys, cols = aggregate(inputs, ["count"], agg)
    try:
        do_merge(out, paths, spec["mergebuf"], None, agg, spec.get("dtypes"), spec["via"])
    except Exception as e:
        # raising is the allowed outcome exactly when some exact value does not fit the output dtype
        res.append(R("value-exact-or-error", not spec["fits"], spec, f"{type(e).__name__}: {e}", "exact values stored (they fit)",
                     True, f"value-exact-or-error:raised-although-fits:{spec['label']}"))
        return res, None
    raw = read_raw(out)
    tot = sum(cols["count"]) if (agg or {}).get("count", "sum") != "sum" else sum(p[2] for d in inputs for p in d["pixels"])
    ok = raw["keys"] == keys and raw["cols"]["count"] == cols["count"] and raw["attrs"].get("sum") == tot
    res.append(R("value-exact-or-error", ok, spec, dict(stored=raw["cols"]["count"], dtype=raw["dtypes"]["count"], sum=raw["attrs"].get("sum")),
                 dict(exact=cols["count"], sum=tot, or_="an exception"), True, f"value-exact-or-error:{spec['label']}"))
    return res, None


class RunTimeout(Exception):
    pass


def _alarm(signum, frame):
    raise RunTimeout("run exceeded 60 s")


def run_spec(spec, workdir):
    import signal
    old = signal.signal(signal.SIGALRM, _alarm)
    signal.alarm(60)          # a non-terminating partition loop becomes a recorded failure instead of a hang
    try:
        return {"merge": run_merge, "assoc": run_assoc, "incompatible": run_incompatible, "overflow": run_overflow,
                "valuetype": run_valuetype}[spec["kind"]](spec, workdir)
    except InputMismatch as e:   # the library did not even write an INPUT cooler as described (create path, not the merge)
        return [R("input-cooler-as-described", False, spec, str(e), "input written as described", True, "input-cooler-as-described")], None
    except RunTimeout:
        return [R("merge-completes", False, spec, "no result after 60 s", "termination", True, "merge-completes:timeout")], None
    except Exception as e:   # a bug in the runner itself or an unreadable output
        return [R("runner-internal", False, spec, f"{type(e).__name__}: {e}\n{traceback.format_exc(limit=-5)}", "no exception", True,
                  f"runner-internal:{type(e).__name__}")], None
    finally:
        signal.alarm(0)
        signal.signal(signal.SIGALRM, old)


# ---------------------------------------------------------------- multiprocessing (thorough only)
_WD = None


def _winit(base):
    global _WD
    warnings.filterwarnings("ignore")
    _WD = os.path.join(base, f"w{os.getpid()}")
    os.makedirs(_WD, exist_ok=True)


def _wrun(spec):
    return run_spec(spec, _WD)


# ---------------------------------------------------------------- scope
# named pixel tables over 3 bins, <= 3 pixels each (symmetric-upper)
NAMED = {
    "E": [],                                          # empty
    "D": [[0, 0, 1], [1, 1, 2], [2, 2, 3]],           # diagonal
    "R0": [[0, 0, 5], [0, 1, 6], [0, 2, 7]],          # a full first row (a row longer than small buffers)
    "L": [[2, 2, 9]],                                 # last row only (leading empty rows)
    "M": [[1, 1, 4], [1, 2, 8]],                      # middle row only (leading empty row)
    "D2": [[0, 0, 30], [1, 1, 20], [2, 2, 10]],       # same support as D, other values (max/min differ per pixel)
    "X": [[0, 2, 1], [1, 2, 2]],                      # last column
}
NAMED_SQ = {
    "E": [], "D": NAMED["D"], "LOW": [[1, 0, 5], [2, 0, 6], [2, 1, 7]], "T": [[0, 1, 5], [1, 0, 50]], "L": [[2, 0, 9]],
}


def families(names, kmax):
    for k in range(1, kmax + 1):
        yield from itertools.combinations_with_replacement(names, k)


def incompatible_specs(vias):
    one = [[0, 0, 1]]
    pairs = [
        ("different-binsize", inp(one, "fix3"), inp(one, "fix3-binsize5")),
        ("different-chrom-length", inp(one, "fix3"), inp(one, "fix3-chromlen")),
        ("different-chrom-name", inp(one, "fix3"), inp(one, "fix3-chromname")),
        ("different-chrom-order", inp(one, "fix3"), inp(one, "fix3-chromorder")),
        ("different-number-of-chroms", inp(one, "fix3"), inp(one, "fix3-fewer-chroms")),
        ("variable-different-edges", inp(one, "var3"), inp(one, "var3-other-edges")),
        ("variable-different-nbins", inp(one, "var3"), inp(one, "var4")),
        ("fixed-vs-variable", inp(one, "fix3"), inp(one, "var3")),
        ("same-nominal-binsize-and-chromsizes-different-table", inp(one, "nominal10-a"), inp(one, "nominal10-b")),
        ("storage-mode", inp(one, "fix3", "upper"), inp(one, "fix3", "square")),
    ]
    for via in vias:
        for name, a, b in pairs:
            for order in ("ab", "ba"):
                ins = [a, b] if order == "ab" else [b, a]
                yield dict(kind="incompatible", difference=name, inputs=ins, mergebuf=10, via=via)
            # the odd one as the third input (every input must be checked, not just the second)
            yield dict(kind="incompatible", difference=name, inputs=[a, a, b], mergebuf=10, via=via)
        yield dict(kind="incompatible", difference="requested-column-missing-in-one-input",
                   inputs=[inp(one, score=True), inp(one, score=False)], mergebuf=10, columns=["count", "score"], via=via)
        yield dict(kind="incompatible", difference="requested-column-missing-in-one-input",
                   inputs=[inp(one, score=False), inp(one, score=True)], mergebuf=10, columns=["count", "score"], via=via)


def overflow_specs(thorough):
    def mk(label, dtype, vals, fits, agg=None, dtypes=None, via="api", pix=(0, 1), also=None):
        # every input also holds pixel (2,2)=1, except for int64 where the recorded TOTAL itself must stay representable
        extra = [] if dtype == "int64" or pix == (2, 2) else [[2, 2, 1]]
        ins = [inp([[pix[0], pix[1], v]] + extra, dtype=dtype) for v in vals]
        if also is not None:
            ins.append(also)
        return dict(kind="overflow", label=label, fits=fits, agg=agg, dtypes=dtypes, mergebuf=10, via=via, inputs=ins)
    i32, i16, i64 = 2 ** 31 - 1, 2 ** 15 - 1, 2 ** 63 - 1
    out = [
        mk("sum-fits-int32-exactly", "int32", [i32 - 1, 1], True),
        mk("sum-fits-int32-exactly", "int32", [i32 - 2, 1, 1], True),
        mk("sum-exceeds-int32", "int32", [i32, 1], False),
        mk("sum-exceeds-int32", "int32", [i32, i32], False),
        mk("sum-exceeds-int32", "int32", [i32 - 1, i32 - 1, 3], False),
        mk("sum-exceeds-int32", "int32", [i32, 1], False, via="cli"),
        mk("max-at-dtype-max", "int32", [i32, i32 - 1], True, agg={"count": "max"}),
        mk("sum-fits-int16-exactly", "int16", [i16 - 1, 1], True),
        mk("sum-exceeds-narrow-int-dtype", "int16", [i16, 1], False),
        mk("mixed-int16-int32-exact", "int16", [i16], True, also=inp([[0, 1, 100000]], dtype="int32")),
        mk("sum-fits-int64-exactly", "int64", [i64 - 1, 1], True),
        mk("sum-exceeds-int64", "int64", [2 ** 62, 2 ** 62], False),
        mk("sum-exceeds-requested-output-dtype", "int32", [30000, 30000], False, dtypes={"count": "int16"}),
        mk("sum-fits-requested-output-dtype", "int32", [30000, 2767], True, dtypes={"count": "int16"}),
        mk("sum-fits-requested-wider-dtype", "int32", [i32, i32], True, dtypes={"count": "int64"}),
    ]
    mixed = [s for s in out if s["label"] == "mixed-int16-int32-exact"][0]
    out.append(dict(mixed, inputs=mixed["inputs"][::-1]))            # the dtype must not be taken from the first input
    if thorough:
        out += [mk("sum-exceeds-narrow-int-dtype", "uint16", [65535, 1], False),
                mk("sum-exceeds-narrow-int-dtype", "int8", [127, 127], False),
                mk("sum-exceeds-narrow-int-dtype", "uint8", [255, 1], False),
                mk("sum-fits-uint16-exactly", "uint16", [65534, 1], True),
                mk("sum-exceeds-int32", "int32", [i32, 1], False, pix=(2, 2)),
                mk("sum-exceeds-int64", "int64", [i64, 1], False),
                mk("min-at-dtype-max", "int32", [i32, i32 - 1], True, agg={"count": "min"}),
                mk("sum-exceeds-requested-output-dtype", "int32", [30000, 30000], False, dtypes={"count": "int16"}, via="cli")]
    return out


# fractional float64 counts (multiples of 1/8: all sums exact) spread over all rows, so that every split of the merge
# into epochs has non-integer partial sums
FLOATS = {
    "FA": [[0, 0, 0.5], [0, 1, 1.25], [1, 1, 2.75], [1, 2, 0.25], [2, 2, 3.5]],
    "FB": [[0, 0, 0.25], [0, 2, 1.5], [1, 2, 0.75], [2, 2, 0.125]],
    "FC": [[0, 1, 0.375], [1, 1, 1.125], [2, 2, 2.625]],
}
BIG = {
    "IA": [[0, 0, 2 ** 31 + 5], [1, 2, 2 ** 40], [2, 2, 7]],
    "IB": [[0, 0, 2 ** 33], [0, 1, 2 ** 31], [1, 2, 3]],
}


def valuetype_specs(thorough):
    fa, fb, fc = (inp(FLOATS[k], dtype="float64", score=True) for k in ("FA", "FB", "FC"))
    ia, ib = (inp(BIG[k], dtype="int64", score=True) for k in ("IA", "IB"))
    small = inp(NAMED["D"], dtype="int32", score=True)
    fams = [("float64-fractional-counts", [fa, fb]), ("int64-counts-beyond-int32", [ia, ib]),
            ("mixed-int32-and-float64-counts", [small, fa]), ("mixed-int32-and-int64-counts", [small, ia])]
    if thorough:
        fams += [("float64-fractional-counts", [fa]), ("float64-fractional-counts", [fc, fb, fa]),
                 ("int64-counts-beyond-int32", [ib]), ("mixed-int32-and-float64-counts", [fa, small]),
                 ("mixed-int32-and-int64-counts", [ia, small, ib])]
    # (via, columns, agg, dtypes, raw --field strings): every way of not requesting a count dtype
    forms = [
        ("api", None, None, None, None),                                          # dtypes=None
        ("api", None, None, {}, None),                                            # dtypes={}
        ("api", ["count"], {"count": "sum"}, {}, None),                           # what `--field count:agg=sum` passes
        ("api", ["count", "score"], None, {"score": "float64"}, None),            # dtypes names only another requested column
        ("api", None, None, {"score": "float64"}, None),                          # dtypes names only a column that is not merged
        ("cli", None, None, None, None),                                          # no --field
        ("cli", ["count"], None, None, ["count"]),
        ("cli", ["count"], {"count": "sum"}, None, ["count:agg=sum"]),
        ("cli", ["count", "score"], None, None, ["count", "score:dtype=float64"]),
    ]
    for kind, ins in fams:
        for via, columns, agg, dtypes, fields in forms:
            for mb in ((2, 10 ** 6) if not thorough else (1, 3, 4, 7, 10 ** 6)):
                yield dict(kind="valuetype", valuekind=kind, inputs=ins, mergebuf=mb, columns=columns, agg=agg, dtypes=dtypes,
                           via=via, fields=fields)


def main():
    B = B7("C07", "bounded/C07.py")
    work = B.path("work")
    os.makedirs(work)
    if B.replay_file:
        rec = json.load(open(B.replay_file))
        case = rec["case"]
        todo = [case["this"], case["reference"]] if "this" in case else [case]
        for c in todo:
            res, tab = run_spec(c, work)
            for r in res:
                print(("ok   " if r["ok"] else "FAIL ") + r["contract"],
                      "" if r["ok"] else f"\n  observed: {r['observed']}\n  expected: {r['expected']}\n  signature: {r['signature']}")
            if "this" in case:
                print("table:", tab)
            feed(B, res)
        return B.finish()

    specs = []          # (group, variant-kind, spec): group ties runs whose outputs must be identical
    T = B.thorough

    def fam_inputs(fam, named=NAMED, **kw):
        return [inp(named[nm], **kw) for nm in fam]

    # --- 1. all families x merge buffers (canonical input order)
    names = list(NAMED) if T else ["E", "D", "R0", "L", "M", "D2"]
    bufs = [1, 2, 3, 4, 5, 6] if T else [1, 2, 3, 5]
    for fam in families(names, 3):
        for mb in bufs:
            specs.append((("fam", "fix3", "upper") + fam, "mergebuf", merge_spec(fam_inputs(fam), mb)))
    # variable-width table (the merger's table-comparison path) and square storage
    for fam in (families(names, 3) if T else [("D",), ("D", "D2"), ("R0", "L"), ("M", "X", "D"), ("L", "E", "R0")]):
        for mb in (bufs if T else [2, 5]):
            specs.append((("fam", "var3", "upper") + fam, "mergebuf", merge_spec(fam_inputs(fam, bins="var3"), mb)))
    for fam in (families(list(NAMED_SQ), 3) if T else [("LOW",), ("T", "T"), ("LOW", "D"), ("T", "LOW", "L"), ("E", "L", "D")]):
        for mb in (bufs if T else [1, 3, 6]):
            specs.append((("fam", "fix3", "square") + fam, "mergebuf", merge_spec(fam_inputs(fam, NAMED_SQ, mode="square"), mb)))
    # --- 2. all input orders
    order_fams = [("D", "R0", "M"), ("D", "D2", "L"), ("E", "X", "R0"), ("R0", "R0", "D2")]
    if T:
        order_fams = [f for f in families(names, 3) if len(f) == 3 and len(set(f)) > 1]
    for fam in order_fams:
        for perm in sorted(set(itertools.permutations(fam))):
            for mb in ([2, 6] if not T else [1, 2, 3, 6]):
                specs.append((("fam", "fix3", "upper") + tuple(sorted(fam, key=list(NAMED).index)), "order",
                              merge_spec(fam_inputs(perm), mb)))
    # mixed count dtypes: the common dtype must not depend on which input comes first
    mixed = [inp(NAMED["D"], dtype="int16"), inp([[0, 0, 70000], [1, 2, 5]], dtype="int32"), inp(NAMED["R0"], dtype="int8")]
    for perm in itertools.permutations(range(3)):
        specs.append((("mixed-dtypes",), "order", merge_spec([mixed[i] for i in perm], 3)))
    # --- 3. several value columns / aggregates
    two = [inp(NAMED["D"], score=True), inp(NAMED["D2"], score=True), inp(NAMED["X"], score=True)]
    for cols, agg in ((["count", "score"], None), (["count", "score"], {"score": "max"}), (["score"], None),
                      (["count"], {"count": "max"}), (["count"], {"count": "min"}), (["count", "score"], {"count": "min", "score": "sum"})):
        for perm in (itertools.permutations(range(3)) if T else [(0, 1, 2), (2, 0, 1)]):
            for mb in ([2, 6] if not T else [1, 2, 3, 6]):
                specs.append((("cols", json.dumps(cols), json.dumps(agg)), "order", merge_spec([two[i] for i in perm], mb, cols, agg)))
    # --- 4. CLI
    for fam, mb in ((("D", "R0", "M"), 2), (("D", "D2"), 6), (("R0",), 3)):
        specs.append((("fam", "fix3", "upper") + fam, "mergebuf", merge_spec(fam_inputs(fam), mb, via="cli")))
    specs.append((("cols", json.dumps(["count", "score"]), json.dumps({"score": "max"})), "order",
                  merge_spec(two, 2, ["count", "score"], {"score": "max"}, via="cli")))
    # --- 5. associativity through nested real merges
    triples = [("D", "R0", "M"), ("D", "D2", "L"), ("E", "X", "R0"), ("D", "D", "D2")]
    if T:
        triples = [f for f in families(names, 3) if len(f) == 3]
    for fam in triples:
        for aggname in ("sum", "max", "min"):
            for mb in ([2, 6] if not T else [1, 2, 3, 6]):
                specs.append((None, None, dict(kind="assoc", inputs=fam_inputs(fam), agg=None if aggname == "sum" else {"count": aggname},
                                               mergebuf=mb)))
    # --- 6. incompatible inputs, 7. dtype limits
    for s in incompatible_specs(("api", "cli") if T else ("api",)):
        specs.append((None, None, s))
    if not T:
        one = [[0, 0, 1]]
        specs.append((None, None, dict(kind="incompatible", difference="different-binsize", inputs=[inp(one), inp(one, "fix3-binsize5")],
                                       mergebuf=10, via="cli")))
        specs.append((None, None, dict(kind="incompatible", difference="storage-mode", inputs=[inp(one), inp(one, mode="square")],
                                       mergebuf=10, via="cli")))
    for s in overflow_specs(T):
        specs.append((None, None, s))
    # --- 7b. value columns wider than the default, no count dtype requested (stored values, dtype, total)
    for s in valuetype_specs(T):
        specs.append((None, None, s))
    # --- 7c. non-integer values: the recorded total is the exact sum of the input totals for EVERY split into epochs
    for fam in (("FA",), ("FA", "FB"), ("FA", "FB", "FC"), ("FB", "FB")):
        ins = [inp(FLOATS[k], dtype="float64") for k in fam]
        for mb in (1, 3, 4, 7, 10 ** 6):
            specs.append((("float-total",) + fam, "mergebuf", merge_spec(ins, mb)))
        for mb in ((3, 10 ** 6) if not T else (1, 3, 4, 7, 10 ** 6)):
            specs.append((("float-total",) + fam, "mergebuf", merge_spec(ins, mb, via="cli")))
        if len(fam) == 3:
            for perm in itertools.permutations(range(3)):
                specs.append((("float-total",) + fam, "order", merge_spec([ins[i] for i in perm], 4)))
    # --- 8. seeded sampling beyond the named families (thorough)
    nsamp = 0
    if T:
        nsamp = 2500
        for i in range(nsamp):
            mode = B.rng.choice(["upper", "upper", "square"])
            bins = B.rng.choice(["fix3", "var3"])
            keys = keys_for(3, mode)
            k = B.rng.randint(1, 4)
            ins = []
            for _ in range(k):
                sup = B.rng.sample(keys, B.rng.randint(0, 3))
                ins.append(inp([[a, b, B.rng.randint(1, 50)] for a, b in sup], bins=bins, mode=mode))
            aggname = B.rng.choice(["sum", "sum", "max", "min"])
            s = merge_spec(ins, B.rng.randint(1, 6), None, None if aggname == "sum" else {"count": aggname})
            specs.append((("rand", i), "mergebuf", s))
            specs.append((("rand", i), "mergebuf", dict(s, mergebuf=B.rng.randint(1, 8))))
            specs.append((("rand", i), "order", dict(s, inputs=B.rng.sample(ins, len(ins)))))
    B.exhaustive = not T
    B.bound = (f"EXHAUSTIVE: all families (multisets) of 1..3 coolers out of {len(names)} named pixel tables over 3 bins (<=3 pixels each: "
               f"empty, diagonal, full row, last row, middle row, same support as diagonal{', last column' if T else ''}) x mergebuf {bufs}; "
               f"{'all' if T else '5'} families on a variable-width table and {'all' if T else '5'} square-storage families; all input orders of "
               f"{len(order_fams)} three-cooler families + a mixed-dtype (int8/int16/int32) family; 6 column-set/aggregate choices (sum/max/min, "
               f"count+float column); nested merges (a+b)+c, a+(b+c), merge(a,b,c) for {len(triples)} triples x sum/max/min; 10 kinds of "
               f"incompatible inputs in both orders and as third input{' via API and CLI' if T else ''}; values at dtype.max-1/dtype.max for "
               f"int32/int16/int64{'/uint16/int8/uint8' if T else ''} and requested output dtypes; fractional float64 / int64>2^31 / mixed "
               f"count dtypes x 9 ways of not requesting a count dtype (dtypes None, {{}}, other column; API and --field forms) x mergebuf "
               f"{'{1,3,4,7,1e6}' if T else '{2,1e6}'}; float64 fractional totals x mergebuf {{1,3,4,7,1e6}} x orders; `cooler merge` CLI"
               + (f".  SAMPLED (seeded, {nsamp} families x 3 runs): random families of 1..4 coolers with <=3 random pixels, both tables, both "
                  f"modes, sum/max/min, mergebuf 1..8, shuffled order" if T else ""))
    B.rule = ("case = one merge (input pixel tables + dtypes + bin table + mode, mergebuf, columns, aggregates, API/CLI) or one nested-merge "
              "triple / incompatible pair / dtype-limit family; non-trivial when the inputs hold at least one pixel; distinct by (contract, case)")

    only = [s for _, _, s in specs]
    if T:
        import multiprocessing as mp
        ctx = mp.get_context("fork")
        with ctx.Pool(min(8, os.cpu_count() or 1), initializer=_winit, initargs=(work,)) as pool:
            outcomes = pool.map(_wrun, only, chunksize=8)
    else:
        outcomes = [run_spec(s, work) for s in only]
    ref = {}
    for (group, vkind, spec), (res, tab) in zip(specs, outcomes):
        feed(B, res)
        if group is None or tab is None:
            continue
        # cross-run clauses: all successful merges of the same family give the identical table whatever the buffer / order
        g = json.dumps(group)
        if g not in ref:
            ref[g] = (tab, spec)
        else:
            contract = "independent-of-input-order" if vkind == "order" else "independent-of-mergebuf"
            B.check(contract, tab == ref[g][0], dict(this=spec, reference=ref[g][1]), tab, ref[g][0], len(tab["keys"]) > 0, contract)
    return B.finish()


if __name__ == "__main__":
    sys.exit(main())
