"""C02 bounded stand-in: every collection any producing operation writes is a valid CSR collection.

Each produced collection is re-read with RAW h5py (never through the cooler read API) and the
schema clauses of the property are re-derived from the stored datasets with plain numpy/python:

  pixel-columns-length==nnz        every dataset under pixels/ has length attrs['nnz']
  pixels-strictly-increasing       (bin1_id, bin2_id) strictly increasing lexicographically (=> unique)
  pixels-in-range                  0 <= bin1_id, bin2_id < len(bins)
  pixels-upper-triangular          bin1_id <= bin2_id when storage-mode is symmetric-upper
  bin1_offset==run-length-index    offset[i] = #pixels with bin1_id < i, length nbins+1
  chrom_offset==run-length-index   offset[c] = #bins with chrom id < c, length nchroms+1 (ids non-decreasing)
  nbins==stored-bin-table, nchroms==stored-chrom-table   attrs agree with the lengths of bins/* and chroms/*
  sum==total-of-count              attrs['sum'] = sum of the stored count column
  bin-type+size==stored-bins       'fixed', b  => every bin is [k*b, min((k+1)*b, chromosome end));
                                   'variable'  => the table is not such a grid (when it has a non-last bin)
  storage-mode-as-requested        attrs['storage-mode'] is the mode the history started with

Producers: create_cooler (all C01 input forms, any row order of a frame), create_cooler(ordered=False) /
create_from_unordered, merge_coolers, coarsen_cooler, zoomify_cooler, create_scool, the CLI (load coo/bg2, cload
pairs, cload tabix, merge, coarsen, zoomify, zoomify --legacy) and chained histories of them, several collections per file.
A producer that raises on a valid input is recorded under `producer-runs` (it leaves no valid collection behind).
If a collection has MORE stored rows than its recorded nnz, that is reported once by the length clause and the other
pixel clauses are evaluated on the first nnz rows.
The index builder is additionally driven across its block boundary at function level (rlencode with every
block size, index_pixels/index_bins with the 1e6 block replaced by small blocks) and, in the thorough tier, end to
end with > 1e6 pixels.
"""
import itertools
import shutil
import math
import os
import sys
import warnings

sys.path.insert(0, os.path.dirname(os.path.dirname(os.path.abspath(__file__))))
warnings.filterwarnings("ignore")

import h5py  # noqa: E402
import numpy as np  # noqa: E402
import pandas as pd  # noqa: E402

import cooler  # noqa: E402
import cooler.create._create as _create_mod  # noqa: E402
from cooler.util import rlencode  # noqa: E402

from bounded.common import Bounded  # noqa: E402
from bounded.C01 import (Rec, bins_of, build_input, cells_of, compositions, make_layout, named_matrices,  # noqa: E402
                         uniform_sizes, NP, H5SETS)


# ------------------------------------------------------------------ independent schema re-derivation
def classify_bins(chrom_ids, starts, ends):
    """what the stored bin table really is (computed from the stored columns only):
    returns (class name, b) with class in
      'grid'                       every chromosome is [k*b, min((k+1)*b, L)) and some chromosome has >= 2 bins
      'all-one-bin'                every chromosome has exactly one bin starting at 0 (any b >= max width fits)
      'nonlast-equal-last-longer'  all non-last bins have one width b but some last / only bin is longer than b
      'irregular'                  anything else"""
    groups = {}
    for c, s, e in zip(chrom_ids, starts, ends):
        groups.setdefault(int(c), []).append((int(s), int(e)))
    nonlast = {e - s for g in groups.values() for (s, e) in g[:-1]}
    if not nonlast:
        return ("all-one-bin" if all(g[0][0] == 0 for g in groups.values()) else "irregular"), None
    if len(nonlast) > 1:
        return "irregular", None
    b = next(iter(nonlast))
    if is_grid(groups, b):
        return "grid", b
    if all(s == k * b for g in groups.values() for k, (s, e) in enumerate(g)) and all(
            e - s == b for g in groups.values() for (s, e) in g[:-1]):
        return "nonlast-equal-last-longer", b
    return "irregular", None


def is_grid(groups, b):
    if not isinstance(b, (int, np.integer)) or b <= 0:
        return False
    for g in groups.values():
        L = g[-1][1]
        for k, (s, e) in enumerate(g):
            if s != k * b or e != min((k + 1) * b, L) or e <= s:
                return False
    return True


def lex_increasing(b1, b2):
    if len(b1) < 2:
        return True
    a1, a0 = b1[1:], b1[:-1]
    return bool(np.all((a1 > a0) | ((a1 == a0) & (b2[1:] > b2[:-1]))))


def rl_index(ids, n):
    """offset[i] = number of entries < i (for a sorted column: the run-length index), length n+1"""
    ids = np.asarray(ids, dtype=np.int64)
    if len(ids) and (ids.min() < 0 or ids.max() >= n):
        return None
    return np.concatenate([[0], np.cumsum(np.bincount(ids, minlength=n))]).astype(np.int64)


class Validator:
    def __init__(self, B):
        self.B = B
        self.R = Rec(B)

    def validate(self, path, group, case, producer, mode=None, matrix_kind="nonempty"):
        """evaluate every schema clause on the collection at path::group; returns a small summary or None"""
        R = self.R
        ok, d = R.guarded("schema-groups-datasets-attrs-present", case, lambda: self._read(path, group),
                          f"{producer}/{matrix_kind}")
        if not ok:
            return None
        R.check("schema-groups-datasets-attrs-present", True, case)
        at, px = d["attrs"], d["pixels"]
        b1, b2 = px["bin1_id"], px["bin2_id"]
        nb_tab = len(d["bins"]["chrom"])
        lclass, _ = classify_bins(d["bins"]["chrom"], d["bins"]["start"], d["bins"]["end"])
        kind = f"{producer}/{lclass}/{matrix_kind}"
        nnz = int(at["nnz"])
        nt = len(b1) > 0

        lens = {k: len(v) for k, v in px.items()}
        R.check("pixel-columns-length==nnz", all(v == nnz for v in lens.values()), case, lens, nnz, True,
                f"{producer}/{matrix_kind}")
        if all(v >= nnz for v in lens.values()) and any(v > nnz for v in lens.values()):
            # rows beyond the recorded nnz have just been reported by the length clause; the remaining clauses are
            # evaluated on the recorded table (first nnz rows) so that one cause is listed once, not four times
            px = {k: v[:nnz] for k, v in px.items()}
            b1, b2 = px["bin1_id"], px["bin2_id"]
            nt = nnz > 0
        same_len = len(b1) == len(b2)
        R.check("pixels-strictly-increasing", same_len and lex_increasing(b1, b2), case,
                _head(b1, b2), "strictly increasing (bin1_id, bin2_id)", nt, kind)
        inr = same_len and (len(b1) == 0 or (b1.min() >= 0 and b2.min() >= 0 and b1.max() < nb_tab and b2.max() < nb_tab))
        R.check("pixels-in-range", inr, case, _head(b1, b2), f"0 <= id < {nb_tab}", nt, kind)
        smode = at.get("storage-mode")
        if smode == "symmetric-upper":
            R.check("pixels-upper-triangular", same_len and bool(np.all(b1 <= b2)), case, _head(b1, b2), "bin1_id <= bin2_id",
                    nt, kind)
        if mode is not None:
            R.check("storage-mode-as-requested", smode == mode, case, smode, mode, True, kind)
        else:
            R.check("storage-mode-as-requested", smode in ("symmetric-upper", "square"), case, smode, "a storage mode", True, kind)

        exp = rl_index(b1, nb_tab)
        got = d["indexes"]["bin1_offset"]
        R.check("bin1_offset==run-length-index", exp is not None and len(got) == nb_tab + 1 and np.array_equal(got, exp), case,
                _lst(got), _lst(exp), nt, kind)
        nch_tab = len(d["chroms"]["name"])
        cid = np.asarray(d["bins"]["chrom"], dtype=np.int64)
        exp = rl_index(cid, nch_tab)
        got = d["indexes"]["chrom_offset"]
        R.check("chrom_offset==run-length-index",
                exp is not None and bool(np.all(np.diff(cid) >= 0)) and len(got) == nch_tab + 1 and np.array_equal(got, exp),
                case, _lst(got), _lst(exp), True, kind)

        R.check("nbins==stored-bin-table", int(at["nbins"]) == nb_tab == len(d["bins"]["start"]) == len(d["bins"]["end"]),
                case, int(at["nbins"]), nb_tab, True, kind)
        R.check("nchroms==stored-chrom-table", int(at["nchroms"]) == nch_tab == len(d["chroms"]["length"]), case,
                int(at["nchroms"]), nch_tab, True, kind)
        if "count" in px:
            cnt = px["count"]
            if cnt.dtype.kind in "iu":
                # exact python-int total (vectorised only for the > 1e6 collections, whose totals fit int64)
                tot = sum(int(x) for x in cnt) if len(cnt) < 100000 else int(cnt.sum(dtype=np.int64))
                good = float(at["sum"]) == float(int(at["sum"])) and int(at["sum"]) == tot
            else:
                tot = math.fsum(float(x) for x in cnt)
                good = math.isclose(float(at["sum"]), tot, rel_tol=1e-9, abs_tol=1e-300)
            R.check("sum==total-of-count", good, case, str(at["sum"]), str(tot), nt, kind)

        # bin type / bin size against the stored table
        btype, bsize = at.get("bin-type"), at.get("bin-size")
        groups = {}
        for c, s, e in zip(d["bins"]["chrom"], d["bins"]["start"], d["bins"]["end"]):
            groups.setdefault(int(c), []).append((int(s), int(e)))
        if btype == "fixed" and isinstance(bsize, (int, np.integer)):
            good = is_grid(groups, bsize)
        elif btype == "variable" and isinstance(bsize, str) and bsize == "null":
            good = lclass != "grid"
        else:
            good = False
        R.check("bin-type+size==stored-bins", good, case, [btype, str(bsize)], f"stored table is: {lclass}", True, lclass)
        return dict(nnz=nnz, nbins=nb_tab, bin_size=None if isinstance(bsize, str) else int(bsize), lclass=lclass)

    @staticmethod
    def _read(path, group):
        with h5py.File(path, "r") as f:
            g = f[group]
            d = {"attrs": dict(g.attrs)}
            for k in ("nnz", "nbins", "nchroms", "bin-type", "bin-size", "storage-mode", "sum"):
                if k not in d["attrs"]:
                    raise KeyError(f"attribute {k!r} missing")
            d["pixels"] = {k: g["pixels"][k][:] for k in g["pixels"]}
            d["bins"] = {k: g["bins"][k][:] for k in ("chrom", "start", "end")}
            d["chroms"] = {k: g["chroms"][k][:] for k in ("name", "length")}
            d["indexes"] = {k: g["indexes"][k][:] for k in ("bin1_offset", "chrom_offset")}
            return d


def _lst(a, n=40):
    return None if a is None else [int(x) for x in a[:n]]


def _head(b1, b2, n=30):
    return [[int(x), int(y)] for x, y in zip(b1[:n], b2[:n])]


# ------------------------------------------------------------------ inputs
def rand_records(rng, n, symm, density, vmax=4):
    cells = cells_of(n, symm)
    pick = sorted({c for c in cells if rng.random() < density} | {(n - 1, n - 1), (0, n - 1), (0, 0)})
    return [(i, j, rng.randint(1, vmax)) for (i, j) in pick]


def frame_of(recs):
    return pd.DataFrame({"bin1_id": np.array([r[0] for r in recs], dtype=np.int64),
                         "bin2_id": np.array([r[1] for r in recs], dtype=np.int64),
                         "count": np.array([r[2] for r in recs], dtype=np.int32)})


D2_SPECS = {
    "last-bin-longer": [["chr1", [0, 10, 20, 45]], ["chr2", [0, 10, 20]]],
    "one-bin-chrom-longer": [["chr1", [0, 10, 20, 25]], ["chr2", [0, 30]]],
}


class World:
    def __init__(self, B):
        self.B = B
        self.V = Validator(B)
        self.R = self.V.R
        self.k = 0

    def newpath(self, ext="cool"):
        self.k += 1
        return self.B.path(f"f{self.k}.{ext}")

    def produce(self, contract, case, fn, kind):
        ok, _ = self.R.guarded(contract, case, fn, kind)
        if ok:
            self.R.check(contract, True, case)
        return ok


SM = {True: "symmetric-upper", False: "square"}


# ------------------------------------------------------------------ function level: the run-length indexer
def rl_case(W, tup, cs):
    R = W.R
    a = np.array(tup, dtype=np.int64)
    runs = [(k, len(list(g))) for k, g in itertools.groupby(tup)]
    est, pos = [], 0
    for _, ln in runs:
        est.append(pos)
        pos += ln
    exp = (est, [ln for _, ln in runs], [k for k, _ in runs])
    case = dict(array=list(tup), chunksize=cs)
    ok, got = R.guarded("rlencode==runs-for-every-block-size", case, lambda: rlencode(a, cs), "int-array")
    if ok:
        g = tuple(x.tolist() for x in got)
        R.check("rlencode==runs-for-every-block-size", g == exp, case, g, exp, len(tup) > 0, "int-array")


def section_rlencode(W, maxlen):
    for n in range(0, maxlen + 1):
        for tup in itertools.product((0, 1, 2), repeat=n):
            for cs in [None, *range(1, n + 2)]:
                rl_case(W, tup, cs)


def index_case(W, which, tup, nids, blk):
    """the real index_pixels / index_bins with the hard-coded 1e6 block replaced by the block size blk"""
    R = W.R
    real = _create_mod.rlencode
    a = np.array(tup, dtype=np.int64)
    n = len(tup)
    exp = rl_index(a, nids).tolist()
    _create_mod.rlencode = lambda array, chunksize=None, _b=blk: real(array, _b)
    try:
        if which == "pixels":
            case = dict(bin1_id=list(tup), nbins=nids, block=blk)
            ok, got = R.guarded("index_pixels==run-length-index@small-blocks", case,
                                lambda: _create_mod.index_pixels({"bin1_id": a}, nids, n), "sorted-column")
            if ok:
                R.check("index_pixels==run-length-index@small-blocks", got.tolist() == exp, case, got.tolist(), exp,
                        n > 0, "sorted-column")
        else:
            case = dict(chrom=list(tup), nchroms=nids, block=blk)
            ok, got = R.guarded("index_bins==run-length-index@small-blocks", case,
                                lambda: _create_mod.index_bins({"chrom": a}, nids, n), "sorted-column")
            if ok:
                R.check("index_bins==run-length-index@small-blocks", got.tolist() == exp, case, got.tolist(), exp,
                        True, "sorted-column")
    finally:
        _create_mod.rlencode = real


def section_index_small_blocks(W, nbins, maxlen):
    for n in range(0, maxlen + 1):
        for tup in itertools.combinations_with_replacement(range(nbins), n):  # all sorted columns
            for blk in range(1, n + 2):
                index_case(W, "pixels", tup, nbins, blk)
                if n > 0:
                    index_case(W, "bins", tup, nbins, blk)


# ------------------------------------------------------------------ producer: create_cooler
def create_one(W, section, spec, recs, symm, form, extra_kw=None, valcols=("count",), vdt=None, group="/"):
    B = W.B
    bins = bins_of(spec)
    valcols = list(valcols)
    vdt = vdt or {"count": "int32"}
    path = W.newpath()
    uri = path if group == "/" else f"{path}::{group}"
    case = dict(history=[dict(op="create_cooler", section=section, bins=spec, records=[list(r) for r in recs],
                              symmetric_upper=symm, form=list(form), value_columns=valcols, dtypes=vdt,
                              kwargs=extra_kw, group=group)])
    mk = "empty" if not recs else "nonempty"
    kw = dict(extra_kw or {})
    if "h5opts" in kw and kw["h5opts"] and "chunks" in kw["h5opts"]:
        kw["h5opts"] = dict(kw["h5opts"], chunks=tuple(kw["h5opts"]["chunks"]))
    if valcols != ["count"]:
        kw["columns"] = valcols
    if valcols != ["count"] or vdt != {"count": "int32"}:
        kw["dtypes"] = {c: NP[vdt[c]] for c in valcols}

    def go():
        pixels, extra = build_input(form, recs, bins, symm, valcols, vdt, B)
        cooler.create_cooler(uri, bins, pixels, symmetric_upper=symm, **kw, **extra)
    pk = "create" + ("(zero-chunk stream)" if form[0] not in ("frame", "dict") and form[1] == [] else "")
    if W.produce("producer-runs", case, go, f"{pk}/{form[0]}/{mk}"):
        W.V.validate(path, group, case, pk, SM[symm], mk)


def section_create(W, T):
    B, rng = W.B, W.B.rng
    n = 4
    spec, bins = make_layout([2, 2], "fixed-short-last")

    def one(section, spec, bins, recs, symm, form, **kw):
        create_one(W, section, spec, recs, symm, form, **kw)

    # named matrices x forms x chunkings
    for symm in (True, False):
        for mname, recs in named_matrices(n, symm, rng):
            nnz = len(recs)
            forms = [["frame", None], ["dict", None]]
            for k in sorted({1, 2, 3, max(nnz, 1), nnz + 1}):
                forms.append(["iter-frames", uniform_sizes(nnz, k) or [0]])
            u2 = uniform_sizes(nnz, 2) or [0]
            forms += [["iter-dicts", [0, *u2, 0]], ["iter-dicts", [*u2[:1], 0, 0, *u2[1:]]], ["list-frames", u2]]
            if nnz == 0:
                forms += [["iter-frames", []], ["iter-dicts", []]]
            if symm or all(i <= j for i, j, _ in recs):
                forms += [["array-loader", k] for k in ((1, 3, n + 1) if not T else range(1, n + 2))]
            for form in forms:
                one("named:" + mname, spec, bins, recs, symm, form)
    # all compositions of a 4-record stream
    recs4 = [(0, 0, 1), (0, 3, 2), (1, 2, 3), (3, 3, 4)]
    for comp in compositions(4, 4):
        one("compositions", spec, bins, recs4, True, ["iter-frames", comp])
        one("compositions", spec, bins, recs4, True, ["iter-dicts", [0] + comp + [0]])
    # every row order of a frame / dict (create_cooler sorts them)
    base = [(0, 0, 1), (0, 3, 2), (0, 1, 5), (2, 2, 3)]
    for t, perm in enumerate(itertools.permutations(base)):
        one("row-order", spec, bins, list(perm), True, ["frame", None])
        if t % 4 == 0 or T:
            one("row-order", spec, bins, list(perm), False, ["dict", None])
    # all bin layouts
    for nb in range(1, (6 if T else 5) + 1):
        for parts in compositions(nb, 3):
            for t, kind in enumerate(("fixed-short-last", "fixed-exact", "variable")):
                sp, bn = make_layout(parts, kind)
                symm = (nb + t + len(parts)) % 2 == 0
                recs = rand_records(rng, nb, symm, 0.4)
                form = [["frame", None], ["iter-frames", uniform_sizes(len(recs), 2) + [0]], ["dict", None]][(nb + t) % 3]
                one("layouts:" + kind, sp, bn, recs, symm, form, group="/" if (nb + t) % 2 else "/g/h")
    for name, sp in D2_SPECS.items():
        bn = bins_of(sp)
        for symm in (True, False):
            one("layouts:" + name, sp, bn, rand_records(rng, len(bn), symm, 0.4), symm, ["frame", None])
    # dtypes / extra columns / filters
    recs3 = [(0, 0, 1, 0.5, 7), (0, 3, 2, 1.5, 8), (2, 2, 3, -2.0, 9)]
    for symm in (True, False):
        one("columns", spec, bins, recs3, symm, ["frame", None], valcols=["count", "e_float", "e_int"],
            vdt={"count": "int64", "e_float": "float64", "e_int": "int64"})
        one("columns", spec, bins, [(r[0], r[1], r[3]) for r in recs3], symm, ["iter-dicts", [1, 0, 2]], valcols=["count"],
            vdt={"count": "float64"})
        one("columns", spec, bins, [(r[0], r[1], r[3]) for r in recs3], symm, ["frame", None], valcols=["e_float"],
            vdt={"e_float": "float64"})
        for h in H5SETS[1:]:
            one("h5opts", spec, bins, recs4, symm, ["iter-frames", [3, 1]], extra_kw={"h5opts": h})


# ------------------------------------------------------------------ producer: unordered ingestion
def unordered_one(W, section, spec, chunks, symm, mergebuf, max_merge, ensure_sorted=False):
    bins = bins_of(spec)
    path = W.newpath()
    case = dict(history=[dict(op="create_cooler(ordered=False)", section=section, bins=spec,
                              chunks=[[list(r) for r in c] for c in chunks], symmetric_upper=symm, mergebuf=mergebuf,
                              max_merge=max_merge, ensure_sorted=ensure_sorted)])
    allrec = [r for c in chunks for r in c]
    mk = "empty" if not allrec else "nonempty"
    kind = (f"unordered/max_merge{'<' if max_merge < len(chunks) else '>='}nchunks/"
            f"mergebuf{'<' if mergebuf < len(allrec) else '>='}nrecords/{mk}")

    def go():
        cooler.create_cooler(path, bins, iter([frame_of(c) for c in chunks]), ordered=False, symmetric_upper=symm,
                             mergebuf=mergebuf, max_merge=max_merge, ensure_sorted=ensure_sorted)
    if W.produce("producer-runs", case, go, kind):
        W.V.validate(path, "/", case, "unordered", SM[symm], mk)


def section_unordered(W, T):
    B, rng = W.B, W.B.rng
    spec, bins = make_layout([3, 2], "fixed-short-last")
    n = len(bins)

    def one(section, chunks, symm, mergebuf, max_merge, ensure_sorted=False):
        unordered_one(W, section, spec, chunks, symm, mergebuf, max_merge, ensure_sorted)

    for symm in (True, False):
        recs = rand_records(rng, n, symm, 0.5)
        nnz = len(recs)
        for k in (1, 2, 3, 4):
            size = -(-nnz // k)
            chunks = [recs[a:a + size] for a in range(0, nnz, size)]
            perms = list(itertools.permutations(range(len(chunks))))
            if len(perms) > 6 and not T:
                perms = [perms[0], perms[-1]] + rng.sample(perms[1:-1], 4)
            for p in perms:
                ch = [chunks[t] for t in p]
                for mb in (1000000, 3, 1):
                    if mb != 1000000 and not symm and not T:
                        continue
                    one("chunk-orders", ch, symm, mb, 200)
                if len(ch) >= 2 and (symm or T):
                    one("chunk-orders", ch, symm, 1000000, 2)
                    one("chunk-orders", ch, symm, 1000000, 1)
        # the same pixel in several chunks (to be summed), an empty chunk, only empty chunks, unsorted chunk + ensure_sorted
        one("repeated-pixels", [recs[:4], recs[2:], recs[1:3]], symm, 1000000, 200)
        one("repeated-pixels", [recs, recs], symm, 4, 200)
        one("empty-chunk", [recs[3:], [], recs[:3]], symm, 1000000, 200)
        one("only-empty-chunks", [[], []], symm, 1000000, 200)
        one("only-empty-chunks", [[]], symm, 1000000, 200)
        one("ensure-sorted", [list(reversed(recs[2:])), list(reversed(recs[:2]))], symm, 1000000, 200, ensure_sorted=True)
    # five and more chunks: two-pass merge (max_merge < n)
    recs = rand_records(rng, n, True, 0.9)
    for k in ((5, 9) if not T else range(4, 12)):
        chunks = [[r] for r in recs[:k]]
        rng.shuffle(chunks)
        for mm in (2, 3, 4):
            one("two-pass", chunks, True, 1000000, mm)


# ------------------------------------------------------------------ histories
class Node:
    def __init__(self, path, group, mode, mk, hist, binsize, nnz=0):
        self.path, self.group, self.mode, self.mk, self.hist, self.binsize = path, group, mode, mk, hist, binsize
        self.nnz = nnz

    @property
    def uri(self):
        return self.path if self.group == "/" else f"{self.path}::{self.group}"


def apply_op(W, node, op):
    """run one producing operation on the collection `node`; validate everything it wrote; return the next node"""
    name = op[0]
    hist = node.hist + [dict(op=name, args=list(op[1:]))]
    case = dict(history=hist)
    kind = {"merge2": "merge", "merge3": "merge", "coarsen-append": "coarsen"}.get(name, name) + (
        f"/mergebuf{'<' if op[1] < node.nnz * (2 if name == 'merge2' else 3) else '>='}nrecords" if name.startswith("merge") else ""
    ) + f"/{node.mk}"
    outs = []
    if name in ("merge2", "merge3"):
        out = W.newpath()
        k = 2 if name == "merge2" else 3
        if not W.produce("producer-runs", case, lambda: cooler.merge_coolers(out, [node.uri] * k, mergebuf=op[1]), kind):
            return None
        outs = [(out, "/")]
    elif name == "coarsen":
        out = W.newpath()
        if not W.produce("producer-runs", case,
                         lambda: cooler.coarsen_cooler(node.uri, out, op[1], chunksize=op[2], nproc=1), kind):
            return None
        outs = [(out, "/")]
    elif name == "coarsen-append":
        # several collections in one file: the coarsened collection is appended to the file holding its source
        grp = (node.group.rstrip("/") + f"/k{op[1]}")
        if not W.produce("producer-runs", case,
                         lambda: cooler.coarsen_cooler(node.uri, f"{node.path}::{grp}", op[1], chunksize=op[2], nproc=1), kind):
            return None
        outs = [(node.path, grp), (node.path, node.group)]  # the source must still be valid after the append
    elif name == "zoomify":
        out = W.newpath("mcool")
        b = node.binsize or 1
        res = [b * m for m in op[1]]
        if not W.produce("producer-runs", case,
                         lambda: cooler.zoomify_cooler(node.uri, out, res, chunksize=op[2], nproc=1), kind):
            return None
        outs = [(out, f"/resolutions/{r}") for r in sorted({b, *res})]
        outs = outs[1:2] + outs[:1] + outs[2:]  # continue from the first derived level
    nxt = None
    family = {"merge2": "merge", "merge3": "merge", "coarsen-append": "coarsen"}.get(name, name)
    for t, (p, g) in enumerate(outs):
        s = W.V.validate(p, g, dict(case, validated=g), family, node.mode, node.mk)
        if t == 0 and s is not None:
            nxt = Node(p, g, node.mode, node.mk, hist, s["bin_size"], s["nnz"])
    return nxt


def section_histories(W, T):
    B, rng = W.B, W.B.rng
    OPS = [("merge2", 1000000), ("merge3", 3), ("coarsen", 2, 2), ("coarsen-append", 3, 1000), ("zoomify", (2, 4), 3)]
    bases = [
        ("fixed", make_layout([5, 3], "fixed-short-last"), True, 0.5, 2),
        ("fixed", make_layout([5, 3], "fixed-short-last"), False, 0.4, 2),
        ("variable", make_layout([3, 1, 4], "variable"), True, 0.5, 2),
        ("variable", make_layout([3, 1, 4], "variable"), False, 0.3, 1 if not T else 2),
        ("exact+one-bin", make_layout([4, 1, 2], "fixed-exact"), True, 0.6, 2),
        ("fixed-empty", make_layout([5, 3], "fixed-short-last"), True, None, 1),
        ("fixed-empty-square", make_layout([2, 2], "fixed-exact"), False, None, 1),
        ("last-bin-longer", (D2_SPECS["last-bin-longer"], bins_of(D2_SPECS["last-bin-longer"])), True, 0.6, 1),
        ("one-bin-chrom-longer", (D2_SPECS["one-bin-chrom-longer"], bins_of(D2_SPECS["one-bin-chrom-longer"])), True, 0.6, 1),
    ]
    if T:
        bases = [(a, b, c, d, e + 1) for (a, b, c, d, e) in bases] + [
            ("fixed-3chrom", make_layout([6, 2, 4], "fixed-short-last"), True, 0.3, 3),
            ("variable-2", make_layout([5, 5], "variable"), False, 0.6, 3),
            ("single-chrom", make_layout([9], "fixed-exact"), True, 0.5, 3)]
    for bname, (spec, bins), symm, dens, depth in bases:
        recs = [] if dens is None else rand_records(rng, len(bins), symm, dens)
        root = history_base(W, bname, spec, recs, symm)
        frontier = [root] if root is not None else []
        for _ in range(depth):
            nxt = []
            for node in frontier:
                for op in OPS:
                    r = apply_op(W, node, op)
                    if r is not None:
                        nxt.append(r)
            frontier = nxt


def history_base(W, bname, spec, recs, symm):
    bins = bins_of(spec)
    path = W.newpath()
    h0 = [dict(op="create_cooler", base=bname, bins=spec, records=[list(r) for r in recs], symmetric_upper=symm)]
    mk = "empty" if not recs else "nonempty"
    if not W.produce("producer-runs", dict(history=h0),
                     lambda: cooler.create_cooler(path, bins, frame_of(recs), symmetric_upper=symm), f"create/{mk}"):
        return None
    s = W.V.validate(path, "/", dict(history=h0), "create", SM[symm], mk)
    if s is None:
        return None
    return Node(path, "/", SM[symm], mk, h0, s["bin_size"], s["nnz"])


def section_random_histories(W, count):
    """thorough only: seeded random bases and random operation sequences beyond the enumerated scope"""
    rng = W.B.rng
    for t in range(count):
        nb = rng.randint(4, 12)
        parts = rng.choice(list(compositions(nb, 3)))
        kind = rng.choice(["fixed-short-last", "fixed-exact", "variable"])
        spec, bins = make_layout(parts, kind)
        symm = rng.random() < 0.6
        recs = rand_records(rng, nb, symm, rng.choice([0.05, 0.2, 0.5, 0.9]), vmax=rng.choice([1, 4, 1000]))
        node = history_base(W, f"random-{kind}", spec, recs, symm)
        for _ in range(rng.randint(2, 4)):
            if node is None:
                break
            name = rng.choice(["merge2", "merge3", "coarsen", "coarsen-append", "zoomify"])
            if name.startswith("merge"):
                op = (name, rng.choice([2, 3, 5, 8, 50, 1000000]))
            elif name.startswith("coarsen"):
                op = (name, rng.choice([2, 2, 3, 4, 5]), rng.choice([1, 2, 3, 7, 1000000]))
            else:
                op = (name, tuple(sorted(rng.sample([2, 3, 4, 6, 8], rng.randint(1, 3)))), rng.choice([1, 3, 10, 1000000]))
            node = apply_op(W, node, op)


# ------------------------------------------------------------------ direct sweeps of merge / coarsen buffer sizes
def section_sweeps(W, T):
    B, rng = W.B, W.B.rng
    spec, bins = make_layout([4, 3], "fixed-short-last")
    n = len(bins)
    for symm in (True, False):
        ra, rb = rand_records(rng, n, symm, 0.5), rand_records(rng, n, symm, 0.3)
        pa, pb, pe = W.newpath(), W.newpath(), W.newpath()
        cooler.create_cooler(pa, bins, frame_of(ra), symmetric_upper=symm)
        cooler.create_cooler(pb, bins, frame_of(rb), symmetric_upper=symm)
        cooler.create_cooler(pe, bins, frame_of([]), symmetric_upper=symm)
        h0 = [dict(op="create_cooler x3", bins=spec, a=[list(r) for r in ra], b=[list(r) for r in rb], e=[],
                   symmetric_upper=symm)]
        total = len(ra) + len(rb)
        for ins, label in (((pa, pb), "a+b"), ((pb, pa, pa), "b+a+a"), ((pa, pe), "a+empty"), ((pe, pa), "empty+a")):
            for mb in ([1, 2, 3, 5, total, 10 ** 6] if (symm or T) else [2, 10 ** 6]):
                out = W.newpath()
                case = dict(history=h0 + [dict(op="merge_coolers", inputs=label, mergebuf=mb)])
                tot = sum({pa: len(ra), pb: len(rb), pe: 0}[p] for p in ins)
                kind = f"merge/mergebuf{'<' if mb < tot else '>='}nrecords/{'with-empty-input' if 'empty' in label else 'nonempty'}"
                if W.produce("producer-runs", case, lambda: cooler.merge_coolers(out, list(ins), mergebuf=mb), kind):
                    W.V.validate(out, "/", case, "merge", SM[symm], "nonempty")
        for k in (2, 3, 4, 7, 8):
            for cs in ([1, 2, 5, 10 ** 6] if (symm or T) else [2]):
                out = W.newpath()
                case = dict(history=h0 + [dict(op="coarsen_cooler", input="a", factor=k, chunksize=cs)])
                if W.produce("producer-runs", case, lambda: cooler.coarsen_cooler(pa, out, k, chunksize=cs), "coarsen/nonempty"):
                    W.V.validate(out, "/", case, "coarsen", SM[symm], "nonempty")
        if T:
            out = W.newpath()
            case = dict(history=h0 + [dict(op="coarsen_cooler", input="a", factor=2, chunksize=2, nproc=2)])
            if W.produce("producer-runs", case, lambda: cooler.coarsen_cooler(pa, out, 2, chunksize=2, nproc=2), "coarsen/nonempty"):
                W.V.validate(out, "/", case, "coarsen", SM[symm], "nonempty")


# ------------------------------------------------------------------ several collections in one file, scool
def section_containers(W, T):
    B, rng = W.B, W.B.rng
    s1, b1 = make_layout([3, 2], "fixed-short-last")
    s2, b2 = make_layout([2, 1, 1], "variable")
    path = W.newpath()
    steps = [("/a", s1, b1, True, 0.6), ("/b/c", s2, b2, False, 0.5), ("/", s1, b1, True, 0.3), ("/a", s2, b2, True, 0.0),
             ("/b/c", s1, b1, True, 0.9), ("/", s2, b2, False, 0.1), ("/d", s1, b1, True, None)]
    hist, live = [], {}
    for grp, sp, bn, symm, dens in steps:
        recs = [] if dens is None else rand_records(rng, len(bn), symm, dens)
        hist = hist + [dict(op="create_cooler(mode='a')", group=grp, bins=sp, records=[list(r) for r in recs], symmetric_upper=symm)]
        mk = "empty" if not recs else "nonempty"
        uri = f"{path}::{grp}"
        if not W.produce("producer-runs", dict(history=hist),
                         lambda: cooler.create_cooler(uri, bn, frame_of(recs), symmetric_upper=symm, mode="a"),
                         f"create(mode=a)/{mk}"):
            continue
        live[grp] = (SM[symm], mk)
        for g, (m, k) in live.items():  # every collection in the file, not only the new one
            W.V.validate(path, g, dict(history=hist, validated=g), "create(mode=a)", m, k)

    # single-cell files
    for t, (sp, bn) in enumerate([(s1, b1), (s2, b2)]):
        for symm in (True, False):
            cells = {"cellA": rand_records(rng, len(bn), symm, 0.5), "cellB": [], "cell_C.3": rand_records(rng, len(bn), symm, 0.9),
                     "d": [(0, 0, 1)]}
            path = W.newpath("scool")
            bins_arg = bn if t == 0 else {k: bn for k in cells}
            case = dict(history=[dict(op="create_scool", bins=sp, bins_as="frame" if t == 0 else "dict-of-frames",
                                      cells={k: [list(r) for r in v] for k, v in cells.items()}, symmetric_upper=symm)])
            if W.produce("producer-runs", case,
                         lambda: cooler.create_scool(path, bins_arg, {k: frame_of(v) for k, v in cells.items()},
                                                     symmetric_upper=symm), "create_scool"):
                for k, v in cells.items():
                    W.V.validate(path, f"/cells/{k}", dict(case, validated=k), "create_scool", SM[symm], "empty" if not v else "nonempty")


# ------------------------------------------------------------------ CLI: text loading and the reducers
def section_cli(W, T):
    from click.testing import CliRunner
    from cooler.cli import cli
    B, rng = W.B, W.B.rng
    runner = CliRunner()

    def invoke(args, case, kind):
        def go():
            res = runner.invoke(cli, args)
            if res.exit_code != 0:
                if res.exception is not None and not isinstance(res.exception, SystemExit):
                    raise res.exception
                raise RuntimeError(f"exit code {res.exit_code}: {res.output[-300:]}")
        return W.produce("producer-runs", case, go, kind)

    layouts = [("fixed", make_layout([4, 3], "fixed-short-last")), ("variable", make_layout([3, 1, 2], "variable"))]
    for lname, (spec, bins) in layouts:
        n = len(bins)
        bed = W.newpath("bed")
        with open(bed, "w") as f:
            f.write("".join(f"{r.chrom}\t{r.start}\t{r.end}\n" for r in bins.itertuples()))
        csz = W.newpath("chromsizes")
        with open(csz, "w") as f:
            f.write("".join(f"{name}\t{edges[-1]}\n" for name, edges in spec))
        for symm in (True, False):
            recs = rand_records(rng, n, symm, 0.5)
            lines = [list(r) for r in recs]
            if symm:  # "unique" input: each element once, in either orientation
                lines = [[j, i, v] if (t % 3 == 0) else [i, j, v] for t, (i, j, v) in enumerate(lines)]
            rng.shuffle(lines)
            flag = [] if symm else ["-N"]
            bins_args = [("bed", bed)] + ([("chromsizes:binsize", f"{csz}:10")] if lname == "fixed" else [])
            for bform, barg in bins_args:
                # chunk sizes (lines per partial cooler): everything at once, halves, thirds; single lines in thorough
                css = (None, -(-len(lines) // 2), -(-len(lines) // 3)) if bform == "bed" else (-(-len(lines) // 2),)
                for cs in (css + ((1,) if T else ())):
                    # ---- load coo
                    txt = W.newpath("coo")
                    with open(txt, "w") as f:
                        f.write("".join(f"{i}\t{j}\t{v}\n" for i, j, v in lines))
                    out = W.newpath()
                    args = ["load", "-f", "coo", *flag, barg, txt, out] + ([] if cs is None else ["--chunksize", str(cs)])
                    case = dict(history=[dict(op="cli", args=["load", "-f", "coo", *flag, bform, "<coo>", "<out>", "chunksize", cs],
                                              bins=spec, lines=lines, symmetric_upper=symm)])
                    if invoke(args, case, f"cli-load-coo/chunksize{'<' if cs and cs < len(lines) else '>='}nlines/nonempty"):
                        W.V.validate(out, "/", case, "cli-load-coo", SM[symm], "nonempty")
                    # ---- load bg2
                    txt = W.newpath("bg2")
                    with open(txt, "w") as f:
                        for i, j, v in lines:
                            a, b = bins.iloc[i], bins.iloc[j]
                            f.write(f"{a.chrom}\t{a.start}\t{a.end}\t{b.chrom}\t{b.start}\t{b.end}\t{v}\n")
                    out = W.newpath()
                    args = ["load", "-f", "bg2", *flag, barg, txt, out] + ([] if cs is None else ["--chunksize", str(cs)])
                    case = dict(history=[dict(op="cli", args=["load", "-f", "bg2", *flag, bform, "<bg2>", "<out>", "chunksize", cs],
                                              bins=spec, lines=lines, symmetric_upper=symm)])
                    if invoke(args, case, f"cli-load-bg2/chunksize{'<' if cs and cs < len(lines) else '>='}nlines/nonempty"):
                        W.V.validate(out, "/", case, "cli-load-bg2", SM[symm], "nonempty")
                    # ---- cload pairs: v read pairs per pixel, 1-based positions inside the two bins
                    txt = W.newpath("pairs")
                    plines = []
                    for i, j, v in lines:
                        a, b = bins.iloc[i], bins.iloc[j]
                        for t in range(v):
                            plines.append([a.chrom, int(a.start) + 1 + t % int(a.end - a.start), b.chrom,
                                           int(b.end) - t % int(b.end - b.start)])
                    rng.shuffle(plines)
                    with open(txt, "w") as f:
                        f.write("".join("\t".join(map(str, p)) + "\n" for p in plines))
                    out = W.newpath()
                    pcs = None if cs is None else max(2, len(plines) * cs // len(lines))
                    args = ["cload", "pairs", "-c1", "1", "-p1", "2", "-c2", "3", "-p2", "4", *flag, barg, txt, out] + (
                        [] if cs is None else ["--chunksize", str(pcs)])
                    case = dict(history=[dict(op="cli", args=["cload", "pairs", *flag, bform, "<pairs>", "<out>", "chunksize",
                                                              pcs],
                                              bins=spec, pairs=plines, symmetric_upper=symm)])
                    if invoke(args, case, f"cli-cload-pairs/chunksize{'<' if cs and pcs < len(plines) else '>='}nlines/nonempty"):
                        W.V.validate(out, "/", case, "cli-cload-pairs", SM[symm], "nonempty")
            # ---- cload tabix: indexed pairs file (upper-triangle records sorted by chrom1, pos1 as `cooler csort` leaves them)
            if symm:
                cid = {name: t for t, (name, _) in enumerate(spec)}
                trows = []
                for i, j, v in recs:
                    a, b = bins.iloc[i], bins.iloc[j]
                    for t in range(v):
                        p1 = int(a.start) + 1 + t % int(a.end - a.start)
                        p2 = int(b.end) - t % int(b.end - b.start)
                        r1, r2 = (a.chrom, p1), (b.chrom, p2)
                        if (cid[r1[0]], r1[1]) > (cid[r2[0]], r2[1]):
                            r1, r2 = r2, r1
                        trows.append([r1[0], r1[1], "+", r2[0], r2[1], "-"])
                trows.sort(key=lambda r: (cid[r[0]], r[1]))
                for ms in (1, 2):
                    txt = W.newpath("tbx.pairs")
                    with open(txt, "w") as f:
                        f.write("".join("\t".join(map(str, p)) + "\n" for p in trows))
                    out = W.newpath()
                    case = dict(history=[dict(op="cli", args=["cload", "tabix", "-p", 1, "-s", ms, "bed", "<pairs.gz>", "<out>"],
                                              bins=spec, rows=trows, symmetric_upper=True)])

                    def go_tabix():
                        import pysam
                        gz = pysam.tabix_index(txt, seq_col=0, start_col=1, end_col=1, zerobased=False, force=True)
                        res = runner.invoke(cli, ["cload", "tabix", "-p", "1", "-s", str(ms), bed, gz, out])
                        if res.exit_code != 0:
                            if res.exception is not None and not isinstance(res.exception, SystemExit):
                                raise res.exception
                            raise RuntimeError(f"exit code {res.exit_code}: {res.output[-300:]}")
                    if W.produce("producer-runs", case, go_tabix, "cli-cload-tabix/nonempty"):
                        W.V.validate(out, "/", case, "cli-cload-tabix", SM[True], "nonempty")
            # ---- reducers through the CLI on a loaded cooler
            base = W.newpath()
            cooler.create_cooler(base, bins, frame_of(recs), symmetric_upper=symm)
            h0 = [dict(op="create_cooler", bins=spec, records=[list(r) for r in recs], symmetric_upper=symm)]
            out = W.newpath()
            case = dict(history=h0 + [dict(op="cli", args=["merge", "<out>", "<in>", "<in>", "-c", 3])])
            if invoke(["merge", out, base, base, "-c", "3"], case, f"cli-merge/mergebuf{'<' if 3 < 2 * len(recs) else '>='}nrecords/nonempty"):
                W.V.validate(out, "/", case, "cli-merge", SM[symm], "nonempty")
            out = W.newpath()
            case = dict(history=h0 + [dict(op="cli", args=["coarsen", "-k", 2, "-c", 3, "<in>", "-o", "<out>"])])
            if invoke(["coarsen", "-k", "2", "-c", "3", base, "-o", out], case, "cli-coarsen/nonempty"):
                W.V.validate(out, "/", case, "cli-coarsen", SM[symm], "nonempty")
            b = 10 if lname == "fixed" else 1
            out = W.newpath("mcool")
            rs = f"{2 * b},{6 * b}"
            case = dict(history=h0 + [dict(op="cli", args=["zoomify", "-r", rs, "-c", 4, "<in>", "-o", "<out>"])])
            if invoke(["zoomify", "-r", rs, "-c", "4", base, "-o", out], case, "cli-zoomify/nonempty"):
                for r in (b, 2 * b, 6 * b):
                    W.V.validate(out, f"/resolutions/{r}", dict(case, validated=r), "cli-zoomify", SM[symm], "nonempty")
    # empty text input (the empty matrix as a text file)
    spec, bins = layouts[0][1]
    bed = W.newpath("bed")
    with open(bed, "w") as f:
        f.write("".join(f"{r.chrom}\t{r.start}\t{r.end}\n" for r in bins.itertuples()))
    txt = W.newpath("coo")
    open(txt, "w").close()
    out = W.newpath()
    case = dict(history=[dict(op="cli", args=["load", "-f", "coo", "bed", "<empty file>", "<out>"], bins=spec, lines=[])])
    if invoke(["load", "-f", "coo", bed, txt, out], case, "cli-load-coo/empty-file"):
        W.V.validate(out, "/", case, "cli-load-coo", SM[True], "empty")
    # legacy quad-tree zoomify needs > 256 bins to produce a level
    spec = [["chr1", [10 * k for k in range(301)]], ["chr2", [10 * k for k in range(41)] + [405]]]
    bins = bins_of(spec)
    recs = rand_records(rng, len(bins), True, 0.002)
    base = W.newpath()
    cooler.create_cooler(base, bins, frame_of(recs))
    out = W.newpath("mcool")
    case = dict(history=[dict(op="create_cooler", bins="chr1: 300 bins of 10, chr2: 40 bins of 10 + [400,405)",
                              records=[list(r) for r in recs], symmetric_upper=True),
                         dict(op="cli", args=["zoomify", "--legacy", "-c", 20, "<in>", "-o", "<out>"])])
    if invoke(["zoomify", "--legacy", "-c", "20", base, "-o", out], case, "cli-zoomify-legacy/nonempty"):
        with h5py.File(out, "r") as f:
            levels = sorted(f.keys())
        W.R.check("legacy-zoomify-writes-levels", len(levels) >= 2, case, levels, ">= 2 levels")
        for lv in levels:
            W.V.validate(out, "/" + lv, dict(case, validated=lv), "cli-zoomify-legacy", SM[True], "nonempty")


# ------------------------------------------------------------------ thorough: the real 1e6 block boundary on disk
def section_million(W):
    # (a) square, 1001 bins, every row holds 1000 pixels: row 1000 starts exactly at pixel 1,000,000 (run start ON the boundary)
    # (b) symmetric dense upper triangle on 1450 bins: 1,051,975 pixels, the boundary falls inside a row
    def chunks_a():
        cols = np.arange(1000, dtype=np.int64)
        for lo in range(0, 1001, 250):
            rows = np.arange(lo, min(lo + 250, 1001), dtype=np.int64)
            yield {"bin1_id": np.repeat(rows, 1000), "bin2_id": np.tile(cols, len(rows)),
                   "count": np.ones(len(rows) * 1000, dtype=np.int32)}

    def chunks_b():
        n = 1450
        for lo in range(0, n, 200):
            r, c = [], []
            for i in range(lo, min(lo + 200, n)):
                r.append(np.full(n - i, i, dtype=np.int64))
                c.append(np.arange(i, n, dtype=np.int64))
            r, c = np.concatenate(r), np.concatenate(c)
            yield {"bin1_id": r, "bin2_id": c, "count": ((r + c) % 3 + 1).astype(np.int32)}

    for label, nb, symm, gen in (("square-1001x1000-row-starts-at-1e6", 1001, False, chunks_a),
                                 ("symmetric-dense-1450", 1450, True, chunks_b)):
        spec = [["chr1", f"{nb} bins of width 10"]]
        bins = pd.DataFrame({"chrom": ["chr1"] * nb, "start": np.arange(nb) * 10, "end": np.arange(1, nb + 1) * 10})
        path = W.newpath()
        case = dict(history=[dict(op="create_cooler(ordered chunks)", input=label, bins=spec, symmetric_upper=symm)])
        if W.produce("producer-runs", case,
                     lambda: cooler.create_cooler(path, bins, gen(), ordered=True, symmetric_upper=symm), "create/million"):
            s = W.V.validate(path, "/", case, "create:>1e6-pixels", SM[symm], "nonempty")
            W.R.check("crosses-1e6-block-boundary", s is not None and s["nnz"] > 1000000, case, s, "> 1e6 pixels")
            if not symm:
                out = W.newpath()
                c2 = dict(history=case["history"] + [dict(op="merge_coolers", inputs="x+x", mergebuf=400000)])
                if W.produce("producer-runs", c2, lambda: cooler.merge_coolers(out, [path, path], mergebuf=400000), "merge/million"):
                    W.V.validate(out, "/", c2, "merge:>1e6-pixels", SM[symm], "nonempty")
            else:
                out = W.newpath()
                c2 = dict(history=case["history"] + [dict(op="coarsen_cooler", factor=2, chunksize=300000)])
                if W.produce("producer-runs", c2, lambda: cooler.coarsen_cooler(path, out, 2, chunksize=300000), "coarsen/million"):
                    W.V.validate(out, "/", c2, "coarsen:>1e6-pixels-input", SM[symm], "nonempty")


def replay(B, W):
    """re-run exactly one recorded case (./check C02 --replay <file>) and print what every contract says"""
    import json
    rec = json.load(open(B.replay_file))
    c = rec["case"]
    print("replaying", rec["contract"], "signature:", rec.get("signature"))
    print("case:", json.dumps(c)[:1500])
    done = True
    if "array" in c:
        rl_case(W, tuple(c["array"]), c["chunksize"])
    elif "bin1_id" in c:
        index_case(W, "pixels", tuple(c["bin1_id"]), c["nbins"], c["block"])
    elif "chrom" in c and "nchroms" in c:
        index_case(W, "bins", tuple(c["chrom"]), c["nchroms"], c["block"])
    elif "history" in c:
        h = c["history"]
        h0 = h[0]
        if h0["op"] == "create_cooler" and "form" in h0:
            create_one(W, h0["section"], h0["bins"], [tuple(r) for r in h0["records"]], h0["symmetric_upper"], h0["form"],
                       extra_kw=h0["kwargs"], valcols=h0["value_columns"], vdt=h0["dtypes"], group=h0["group"])
        elif h0["op"] == "create_cooler(ordered=False)":
            unordered_one(W, h0["section"], h0["bins"], [[tuple(r) for r in ch] for ch in h0["chunks"]], h0["symmetric_upper"],
                          h0["mergebuf"], h0["max_merge"], h0["ensure_sorted"])
        elif h0["op"] == "create_cooler" and "base" in h0 and all("args" in st for st in h[1:]):
            node = history_base(W, h0["base"], h0["bins"], [tuple(r) for r in h0["records"]], h0["symmetric_upper"])
            for st in h[1:]:
                if node is None:
                    break
                node = apply_op(W, node, (st["op"], *[tuple(a) if isinstance(a, list) else a for a in st["args"]]))
        else:
            done = False
    else:
        done = False
    if not done:
        print("recorded observed:", rec["observed"], "\nrecorded expected:", rec["expected"])
        print(f"(composite case: re-run `bounded/C02.py --tier {B.tier} --seed {B.seed}`; the case lists every input)")
    for v in B.violations:
        r = json.load(open(v["replay"]))
        print("FAIL", r["contract"], "\n  observed:", r["observed"], "\n  expected:", r["expected"], "\n  signature:", r["signature"])
    print("contracts evaluated:", B.contracts, "violations:", len(B.violations))
    return B.finish()


def main():
    B = Bounded("C02", "bounded/C02.py")
    try:
        return body(B)
    finally:
        shutil.rmtree(B.tmp, ignore_errors=True)  # also when the runner itself crashes


def body(B):
    T = B.thorough
    W = World(B)
    if B.replay_file:
        return replay(B, W)
    rl_len = 9 if T else 7
    ix_len = 8 if T else 6
    B.bound = (
        f"function level: rlencode on ALL arrays over {{0,1,2}} of length <={rl_len} x ALL block sizes 1..n+1 and None; real index_pixels/"
        f"index_bins on ALL sorted columns of length <={ix_len} over 4 ids with the 1e6 block replaced by every block 1..n+1; "
        "end to end (raw h5py re-derivation of every schema clause on every collection written): create_cooler [5-7 named matrices on 4 bins x 2 modes x "
        "{frame, dict, chunk streams of sizes 1,2,3,nnz,nnz+1 with empty chunks, zero-chunk streams, list, ArrayLoader}, ALL compositions of a 4-record stream, "
        f"ALL 24 row orders of a frame, ALL bin layouts <=3 chromosomes <={6 if T else 5} bins x 3 kinds + 2 'last bin longer' tables, dtypes/extra columns/4 h5opts]; "
        "unordered ingestion [1..4 chunks in ALL chunk orders (k=4: 6 orders in quick) x mergebuf {1,3,1e6} x max_merge {1,2,200}, repeated pixels, empty chunks, "
        "5..9 chunks with max_merge 2..4]; merge/coarsen sweeps [4 input combinations x mergebuf {1,2,3,5,n,1e6}; factor {2,3,4,7,8} x chunksize {1,2,5,1e6}]; "
        f"ALL histories of length <={3 if T else 2} over {{merge2, merge3(buf 3), coarsen 2, coarsen 3 appended to the source file, zoomify x2,x4}} from "
        f"{12 if T else 9} base coolers (fixed/variable/one-bin/empty/last-bin-longer, both modes); 7 creations into one file (3 groups incl. root, overwrites); "
        "create_scool (4 cells incl. empty, bins as frame / dict); CLI load coo/bg2 + cload pairs + cload tabix (2 layouts x 2 modes x bins as BED / chromsizes:binsize x "
        "chunksize {all, half, third of the lines}), CLI merge/coarsen/zoomify/zoomify --legacy, empty text file"
        + ("; thorough: two collections with > 1e6 pixels (a row starting exactly at pixel 1,000,000; boundary inside a row) + merge/coarsen of them; 250 seeded random histories (4..12 bins, 2..4 operations with random buffer sizes/factors/resolutions)" if T else ""))
    B.rule = ("case = the full history (inputs, operation arguments) of the validated collection + which collection of the output file; one evaluation per "
              "(schema clause, collection); non-trivial when the collection has >= 1 stored pixel (attribute/index-of-bins clauses: always); distinct by (contract, case)")

    section_rlencode(W, rl_len)
    section_index_small_blocks(W, 4, ix_len)
    section_create(W, T)
    section_unordered(W, T)
    section_sweeps(W, T)
    section_histories(W, T)
    section_containers(W, T)
    section_cli(W, T)
    if T:
        section_million(W)
        section_random_histories(W, 250)
        B.exhaustive = False  # the seeded random histories are a sample; everything before them is enumerated exhaustively
    W.R.dump()
    return B.finish()


if __name__ == "__main__":
    sys.exit(main())
