"""C14 bounded stand-in: the REAL table selectors (Cooler.chroms/bins/pixels, core.get,
RangeSelector1D slicing / scalar / column subscripts / fetch, pixels(join=True)) and the
REAL api.annotate, against raw h5py reads of the stored datasets.

Reference (never goes through the library): every column of /chroms, /bins, /pixels is read
with h5py; enum columns are decoded by inverting the HDF5 enum mapping, byte strings by
.decode(), integer chromosome ids through /chroms/name.  Expected selector result for a row
range = python slicing of the stored row list, labelled with the row numbers.  Expected
annotation of pixel t, side s  =  the stored row bin_s[t] of the bin table (looked up by LABEL
in the table that was passed), under the column name col+s.
"""
import sys, os
sys.path.insert(0, os.path.dirname(os.path.dirname(os.path.abspath(__file__))))
import itertools
import math
import warnings
warnings.filterwarnings("ignore")
import numpy as np
import h5py
import cooler
from cooler.core import get as core_get
from bounded.common import *

PER_SIGNATURE = 2          # recorded violations per signature (all are counted)


# ------------------------------------------------------------------ helpers
def cap_failures(B):
    """keep one known failure class from using up all the violation slots: after PER_SIGNATURE
    recorded violations of a signature further ones are only counted"""
    seen = {}
    orig = B.fail
    B.max_violations = 40

    def fail(contract, case, observed, expected, signature=None):
        sig = signature or contract
        seen[sig] = seen.get(sig, 0) + 1
        if seen[sig] > PER_SIGNATURE:
            B.evaluations += 1
            B.contracts[contract] = B.contracts.get(contract, 0) + 1
            return
        orig(contract, case, observed, expected, signature)
    B.fail = fail
    return seen


def norm(v):
    """value normal form for comparison: numbers as float (NaN -> 'NaN'), everything else as str"""
    if isinstance(v, (int, float)):
        v = float(v)
        return "NaN" if v != v else v
    if isinstance(v, str):
        return v
    if v is None:
        return "NaN"
    if isinstance(v, (bytes, np.bytes_)):
        return v.decode()
    if isinstance(v, (np.bool_, np.integer, np.floating)):
        v = float(v)
        return "NaN" if math.isnan(v) else v
    return "NaN" if v is pd.NA else str(v)


def values(obj):
    """list of normal-form values of a Series / Categorical / array"""
    if isinstance(obj, pd.Series):
        lst = obj.astype(object).tolist() if isinstance(obj.dtype, pd.CategoricalDtype) else obj.tolist()
    else:
        lst = list(obj)
    return [norm(v) for v in lst]


def raw_table(grp, chromnames=None, convert_enum=True):
    """{column: [stored values]} read with h5py only"""
    out = {}
    for k in grp.keys():
        d = grp[k]
        a = d[:]
        enum = h5py.check_dtype(enum=d.dtype)
        if enum is not None and convert_enum:
            inv = {code: name for name, code in enum.items()}
            out[k] = [inv[int(x)] for x in a]
        elif a.dtype.kind == "S":
            out[k] = [x.decode() for x in a]
        else:
            out[k] = [norm(x) for x in a]
    return out


class Ref:
    def __init__(self, path):
        with h5py.File(path, "r") as h:
            self.names = [x.decode() for x in h["chroms/name"][:]]
            self.enum = h5py.check_dtype(enum=h["bins/chrom"].dtype) is not None
            self.codes = [int(x) for x in h["bins/chrom"][:]]
            self.tab = {t: raw_table(h[t]) for t in ("chroms", "bins", "pixels")}
            self.tab_noconv = {t: raw_table(h[t], convert_enum=False) for t in ("chroms", "bins", "pixels")}
            if not self.enum:                       # integer ids -> names through /chroms/name (bins() contract)
                self.tab["bins"]["chrom"] = [self.names[c] for c in self.codes]
            self.n = {t: len(next(iter(self.tab[t].values()))) for t in self.tab}
        self.nbins = self.n["bins"]

    def window(self, chrom, s=None, e=None):
        b = self.tab["bins"]
        idx = [k for k in range(self.nbins) if b["chrom"][k] == chrom and
               (s is None or (b["end"][k] > s and b["start"][k] < e))]
        return idx[0], idx[-1] + 1


def frame_matches(got, fields, cols, idx):
    """got == the stored rows idx of the requested columns, labelled idx.  returns (ok, observed)"""
    try:
        if isinstance(fields, str):
            # (the Series name is not checked: the statement speaks of rows and row labels only; on this tree
            #  bins()['chrom'] of an integer-encoded file comes back unnamed)
            ok = (isinstance(got, pd.Series) and list(got.index) == idx
                  and values(got) == [norm(cols[fields][i]) for i in idx])
            return ok, dict(index=list(map(int, got.index)), values=values(got))
        if not isinstance(got, pd.DataFrame):
            return False, repr(got)
        want = list(cols.keys()) if fields is None else list(fields)
        okc = (set(got.columns) == set(want) and len(got.columns) == len(want)) if fields is None else list(got.columns) == want
        ok = okc and [int(x) for x in got.index] == idx and all(values(got[c]) == [norm(cols[c][i]) for i in idx] for c in want)
        return ok, dict(columns=list(got.columns), index=[int(x) for x in got.index], rows=[values(got[c]) for c in got.columns])
    except Exception as e:
        return False, f"{type(e).__name__}: {e}"


def field_specs(cols, canonical, level="all"):
    """column selections: None, every non-empty subset in stored order, single names as strings (-> Series), a few re-orderings.
    level 'all' = every one of them; 'singles' / 'core' / 'few' = the sub-lists that get EVERY row range when the budget is tight"""
    rest = [c for c in cols if c not in canonical]
    order = list(canonical) + rest
    core = [None, list(canonical), order[0], [order[-1]], [order[-1], order[0]], list(reversed(order)), order[-1], [order[1]]]
    if level == "core":
        return core
    if level == "few":
        return [None, list(canonical), order[0], [order[-1], order[0]]]
    if level == "singles":
        return core + [[c] for c in order if [c] not in core] + [c for c in order if c not in core]
    specs = [None]
    for r in range(1, len(order) + 1):
        for sub in itertools.combinations(order, r):
            specs.append(list(sub))
    specs += list(order)                              # strings
    specs += [list(reversed(order)), [order[-1], order[0]], [order[1], order[0]]]
    return specs


def key_of(spec):
    return spec if (spec is None or isinstance(spec, str)) else list(spec)


def slice_bounds(n):
    return [None] + list(range(-n, n + 1))


def core_ranges(n):
    """a small set of range spellings: open, empty, negative, reversed(empty), one-row"""
    c = {(None, None), (0, 0), (None, 1), (1, None), (-1, None), (None, -1), (n, n), (n, None), (1, n), (-n, None),
         (n - 1, n), (min(2, n), 1), (-1, 1 - n if n > 1 else None), (None, 0)}
    if n > 2:
        c |= {(1, n - 1), (-2, -1), (1, -1), (-n + 1, 2)}
    return sorted(c, key=lambda t: (str(t[0]), str(t[1])))


# ------------------------------------------------------------------ part A: selectors
class SelectorChecks:
    def __init__(self, B, path, desc, store=None):
        self.B, self.path, self.desc = B, path, desc
        self.ref = Ref(path)
        self.clr = cooler.Cooler(path if store is None else store)

    def selector(self, table, **kw):
        return getattr(self.clr, table)(**kw)

    def sweep_table(self, table, canonical, wide="all", convert_enum=True, wide_specs=None, only_with=None):
        """every column selection x (EVERY slice if the selection is in the `wide` list, else ~18 slice spellings)"""
        B, ref = self.B, self.ref
        cols = (ref.tab if convert_enum else ref.tab_noconv)[table]
        n = ref.n[table]
        kw = {} if convert_enum else {"convert_enum": False}
        base = self.selector(table, **kw)
        contract = "selector-rows==stored-rows[lo:hi]"
        case0 = dict(self.desc, table=table, nrows=n, **({"convert_enum": False} if not convert_enum else {}))
        got = B.guarded("selector-length==stored-length", case0, lambda: (len(base), base.shape))
        if got is not None:
            B.check("selector-length==stored-length", got == (n, (n,)), case0, list(got), [n, [n]], True,
                    f"selector-length==stored-length:{table}")
        specs = field_specs(cols, canonical, "all")
        allr = [(a, b) for a in slice_bounds(n) for b in slice_bounds(n)]
        corer = core_ranges(n) if n > 0 else [(None, None), (0, 0), (None, 0), (0, None)]
        wide_specs = field_specs(cols, canonical, wide) if wide_specs is None else wide_specs
        rows = list(range(n))
        for spec in specs:
            if only_with is not None and spec is not None and only_with not in ([spec] if isinstance(spec, str) else spec):
                continue        # (re-sweeps for another chromosome encoding: only selections that contain that column)
            is_core = any(key_of(spec) == key_of(s) for s in wide_specs)
            sel = base if spec is None else base[spec]
            for (a, b) in (allr if is_core else corer):
                idx = rows[a:b]                                  # python / pandas slicing semantics
                case = dict(case0, fields=spec, rows=[a, b])
                kind = "empty" if not idx else "non-empty"
                sig = f"{contract}:{table}:{'series' if isinstance(spec, str) else 'frame'}:{kind}"
                got = B.guarded(contract, case, lambda: sel[a:b], signature=sig + ":exception")
                if got is None:
                    continue
                ok, obs = frame_matches(got, spec, cols, idx)
                B.check(contract, ok, case, obs, dict(index=idx, rows={c: [cols[c][i] for i in idx] for c in
                                                                     ([spec] if isinstance(spec, str) else (spec or list(cols)))}),
                        bool(idx), sig)
            # scalars: one row, labelled with its row number
            if is_core:
                for s in range(-n, n):
                    idx = [s % n]
                    case = dict(case0, fields=spec, scalar=s)
                    sig = f"selector-scalar==that-row:{table}"
                    got = B.guarded("selector-scalar==that-row", case, lambda: sel[s], signature=sig + ":exception")
                    if got is not None:
                        ok, obs = frame_matches(got, spec, cols, idx)
                        B.check("selector-scalar==that-row", ok, case, obs, dict(index=idx), True, sig)

    def sweep_beyond(self, table, canonical):
        """bounds that lie beyond the table (a < -n, b < -n, b > n, a > n): the index range they denote is the clipped one, as for
        lists / arrays / DataFrame.iloc.  Own contract and signatures (negative / positive side)"""
        B, ref = self.B, self.ref
        cols = ref.tab[table]
        n = ref.n[table]
        base = self.selector(table)
        contract = "selector-bound-beyond-table==clipped-range"
        rng_ = [(a, b) for a in (-n - 2, -n - 1) for b in (None, 1, n)] + \
               [(a, b) for a in (None, 0, 1) for b in (n + 1, n + 3, -n - 1, -n - 2)] + [(n + 1, n + 2), (n + 1, None), (-n - 1, -n - 1)]
        rows = list(range(n))
        for spec in field_specs(cols, canonical, "few"):
            sel = base if spec is None else base[spec]
            for (a, b) in rng_:
                idx = rows[a:b]
                neg = (a is not None and a < -n) or (b is not None and b < -n)
                case = dict(self.desc, table=table, nrows=n, fields=spec, rows=[a, b])
                sig = f"{contract}:{'negative' if neg else 'positive'}-bound-beyond-table"
                got = B.guarded(contract, case, lambda: sel[a:b], signature=sig + ":exception")
                if got is None:
                    continue
                ok, obs = frame_matches(got, spec, cols, idx)
                B.check(contract, ok, case, obs, dict(index=idx), bool(idx), sig)

    def sweep_get(self, table):
        """core.get(grp, lo, hi, fields) called directly on an open group, hi=None included"""
        B, ref = self.B, self.ref
        cols = ref.tab[table] if (table != "bins" or ref.enum) else dict(ref.tab[table], chrom=[float(c) for c in ref.codes])
        n = ref.n[table]
        names = list(cols)
        specs = [None, names[:1], names[-1], list(reversed(names))]
        contract = "get-rows==stored-rows[lo:hi]"
        with h5py.File(self.path, "r") as h:
            for spec in specs:
                for lo in range(n + 1):
                    for hi in list(range(lo, n + 1)) + [None]:
                        idx = list(range(n))[lo:hi]
                        case = dict(self.desc, table=table, fields=spec, lo=lo, hi=hi)
                        sig = f"{contract}:{table}"
                        got = B.guarded(contract, case, lambda: core_get(h[table], lo, hi, spec), signature=sig + ":exception")
                        if got is not None:
                            ok, obs = frame_matches(got, spec, cols, idx)
                            B.check(contract, ok, case, obs, dict(index=idx), bool(idx), sig)

    def regions(self):
        ref = self.ref
        b = ref.tab["bins"]
        out = []
        for c in ref.names:
            ks = [k for k in range(ref.nbins) if b["chrom"][k] == c]
            out.append((c, ref.window(c)))
            out.append(((c, None, None), ref.window(c)))
            for x in ks:
                for y in ks:
                    if x <= y:
                        s, e = int(b["start"][x]), int(b["end"][y])
                        out.append((f"{c}:{s}-{e}", ref.window(c, s, e)))
                        if e - 1 > s + 1:
                            out.append(((c, s + 1, e - 1), ref.window(c, s + 1, e - 1)))
        return out

    def sweep_fetch(self):
        """fetch(region): bins -> the bins overlapping the region; pixels -> the stored records whose bin1 lies in it"""
        B, ref = self.B, self.ref
        pb1 = [int(x) for x in ref.tab["pixels"]["bin1_id"]]
        sels = {
            ("bins", None): self.clr.bins(), ("bins", "start"): self.clr.bins()["start"],
            ("bins", ("end", "chrom")): self.clr.bins()[["end", "chrom"]],
            ("pixels", None): self.clr.pixels(), ("pixels", ("count",)): self.clr.pixels()[["count"]],
        }
        contract = "selector-fetch==rows-of-region"
        for reg, (i0, i1) in self.regions():
            for (table, spec), sel in sels.items():
                spec = list(spec) if isinstance(spec, tuple) else spec
                idx = list(range(i0, i1)) if table == "bins" else [t for t, x in enumerate(pb1) if i0 <= x < i1]
                case = dict(self.desc, table=table, fields=spec, region=repr(reg))
                # (a table whose last bin is LONGER than the others gets its own signature: get_binsize reports it as fixed-width)
                sig = f"{contract}:{table}" + (":long-last-bin-table" if "long-last" in str(self.desc.get("bins")) else "")
                got = B.guarded(contract, case, lambda: sel.fetch(reg), signature=sig + ":exception")
                if got is not None:
                    ok, obs = frame_matches(got, spec, ref.tab[table], idx)
                    B.check(contract, ok, case, obs, dict(index=idx), bool(idx), sig)

    def sweep_pixels_join(self, full):
        """pixels(join=True)[a:b]: bin ids replaced by the coordinates of the pixel's own bins, rows/labels unchanged"""
        B, ref = self.B, self.ref
        pix, bins = ref.tab["pixels"], ref.tab["bins"]
        n = ref.n["pixels"]
        contract = "pixels-join==own-bin-coordinates"
        base = self.clr.pixels(join=True)
        specs = [None, ["bin1_id", "bin2_id", "count"], ["bin2_id", "count"], ["count", "bin1_id"], ["count"]]
        allr = [(a, b) for a in slice_bounds(n) for b in slice_bounds(n)]
        corer = core_ranges(n) if n else [(None, None), (0, 0)]
        for spec in specs:
            sel = base if spec is None else base[spec]
            for (a, b) in (allr if (full and (spec is None or self.B.thorough)) else corer):
                idx = list(range(n))[a:b]
                pcols = list(pix) if spec is None else spec
                case = dict(self.desc, table="pixels", join=True, fields=spec, rows=[a, b])
                sig = f"{contract}:{'empty' if not idx else 'non-empty'}"
                got = B.guarded(contract, case, lambda: sel[a:b], signature=sig + ":exception")
                if got is None:
                    continue
                exp = {}
                for c in pcols:
                    if c in ("bin1_id", "bin2_id"):
                        s = c[3]
                        ids = [int(pix[c][t]) for t in idx]
                        for bc in ("chrom", "start", "end"):
                            exp[bc + s] = [bins[bc][k] for k in ids]
                    else:
                        exp[c] = [pix[c][t] for t in idx]
                try:
                    ok = set(got.columns) == set(exp) and [int(x) for x in got.index] == idx
                    for c in exp:
                        if not ok:
                            break
                        g = values(got[c])
                        if c.startswith("chrom") and not ref.enum:
                            # the statement asks for "the chromosome" of the bin: with integer-encoded chromosomes this path
                            # hands back the stored integer id; accept the id or the name (both identify the chromosome)
                            alt = [norm(ref.codes[int(pix["bin" + c[-1] + "_id"][t])]) for t in idx]
                            ok = g == [norm(v) for v in exp[c]] or g == alt
                        else:
                            ok = g == [norm(v) for v in exp[c]]
                    obs = dict(columns=list(got.columns), index=[int(x) for x in got.index], rows=[values(got[c]) for c in got.columns])
                except Exception as e:
                    ok, obs = False, f"{type(e).__name__}: {e}"
                B.check(contract, ok, case, obs, dict(index=idx, columns=exp), bool(idx) and any(c in pcols for c in ("bin1_id", "bin2_id")), sig)


# ------------------------------------------------------------------ part B: annotate
INDEX_KINDS = ["range", "offset", "reversed-labels", "scattered"]
ID_DTYPES = [np.int64, np.int32, np.uint32, np.int64]


def make_pixels(seq, variant):
    """seq: list of (bin1, bin2); variant: (columns kind, index kind, id dtype, extra column?)"""
    colkind, ixkind, dt, extra = variant
    m = len(seq)
    d = {}
    if colkind in ("both", "both-swapped-order"):
        d["bin1_id"] = np.array([p[0] for p in seq], dtype=dt)
        d["bin2_id"] = np.array([p[1] for p in seq], dtype=dt)
        if colkind == "both-swapped-order":
            d = {"bin2_id": d["bin2_id"], "bin1_id": d["bin1_id"]}
    elif colkind == "bin1-only":
        d["bin1_id"] = np.array([p[0] for p in seq], dtype=dt)
    else:
        d["bin2_id"] = np.array([p[1] for p in seq], dtype=dt)
    d["count"] = np.array([10 * p[0] + p[1] + 1 for p in seq], dtype=np.int32)
    if extra:
        d["score"] = np.array([0.5 * t for t in range(m)], dtype=float)
    if ixkind == "range":
        index = pd.RangeIndex(m)
    elif ixkind == "offset":
        index = pd.Index(np.arange(100, 100 + m, dtype=np.int64))
    elif ixkind == "reversed-labels":
        index = pd.Index(np.arange(m, dtype=np.int64)[::-1])
    else:
        index = pd.Index(np.array([(7 * t + 3) % 1009 for t in range(m)], dtype=np.int64))
    return pd.DataFrame(d, index=index)


class AnnotateChecks:
    def __init__(self, B, path, desc):
        self.B, self.path, self.desc = B, path, desc
        self.ref = Ref(path)
        self.clr = cooler.Cooler(path)
        ref = self.ref
        n = ref.nbins
        bt = ref.tab["bins"]
        order = ["chrom", "start", "end"] + [c for c in bt if c not in ("chrom", "start", "end")]
        # a full bin table built from the raw reads (not through the library), index = bin ids
        self.frame = pd.DataFrame({c: (bt[c] if c in ("chrom",) or isinstance(bt[c][0], str) else
                                       np.array([np.nan if v == "NaN" else v for v in bt[c]], dtype=float if c not in ("start", "end") else np.int64))
                                   for c in order}, index=pd.RangeIndex(n))
        self.frame_cat = self.frame.copy()
        self.frame_cat["chrom"] = pd.Categorical(self.frame["chrom"], categories=ref.names, ordered=True)
        self.cols = {c: list(bt[c]) for c in order}
        self.cols_noconv = dict(self.cols, chrom=[float(c) for c in ref.codes])
        self.counter = 0

    def bins_forms(self, used, few_forms):
        """(form name, bins object, {col: values by bin id}, columns, length) for every admissible way of passing the bin table"""
        n = self.ref.nbins
        out = [("frame", self.frame, self.cols, list(self.frame.columns), n)]
        lo, hi = (min(used), max(used) + 1) if used else (0, 0)
        for p in range(0, n):
            for q in range(p + 1, n + 1):
                if (p, q) == (0, n):
                    continue
                if used and not (p <= lo and hi <= q):
                    continue
                fr = self.frame_cat if (p + q) % 2 else self.frame
                out.append((f"partial-frame[{p}:{q}]", fr.iloc[p:q], self.cols, list(self.frame.columns), q - p))
        if not few_forms:
            out.append(("selector", self.clr.bins(), self.cols, list(self.frame.columns), n))
            k = self.counter % 3
            if k == 0:
                out.append(("selector[[chrom,start,end]]", self.clr.bins()[["chrom", "start", "end"]], self.cols, ["chrom", "start", "end"], n))
            elif k == 1:
                out.append(("selector[[weight]]", self.clr.bins()[["weight"]], self.cols, ["weight"], n))
            else:
                out.append(("selector(convert_enum=False)", self.clr.bins(convert_enum=False), self.cols_noconv, list(self.frame.columns), n))
            out.append(("frame[[end,weight]]", self.frame[["end", "weight"]], self.cols, ["end", "weight"], n))
        return out

    def one(self, seq, variant, replace, seqdesc, selector_forms=True):
        B = self.B
        self.counter += 1
        pix = make_pixels(seq, variant)
        used = sorted({int(v) for c in ("bin1_id", "bin2_id") if c in pix.columns for v in pix[c]})
        contract = "annotate==own-bins-columns"
        for fname, bobj, cols, bcols, blen in self.bins_forms(used, few_forms=not selector_forms):
            case = dict(self.desc, pixels=seqdesc if seqdesc is not None else [list(p) for p in seq], pixel_columns=list(pix.columns),
                        index=variant[1], id_dtype=np.dtype(variant[2]).name, bins_form=fname, replace=replace)
            fkind = fname.split("[")[0] if fname.startswith("partial") else fname
            size = "empty-pixels" if len(seq) == 0 else ("few-pixels" if blen > len(seq) else "many-pixels")
            sig = f"{contract}:{fkind}:{size}"
            pin = pix.copy()
            got = B.guarded(contract, case, lambda: cooler.annotate(pin, bobj, replace=replace), signature=sig + ":exception")
            if got is None:
                continue
            exp = {}
            for s in ("1", "2"):
                idc = f"bin{s}_id"
                if idc in pix.columns:
                    ids = [int(v) for v in pix[idc]]
                    for bc in bcols:
                        exp[bc + s] = [cols[bc][k] for k in ids]
            for c in pix.columns:
                if replace and c in ("bin1_id", "bin2_id"):
                    continue
                exp[c] = list(pix[c])
            try:
                ok = (isinstance(got, pd.DataFrame) and set(got.columns) == set(exp) and len(got.columns) == len(exp)
                      and len(got) == len(pix) and list(got.index) == list(pix.index)
                      and all(values(got[c]) == [norm(v) for v in exp[c]] for c in exp)
                      and pin.equals(pix))                       # the caller's frame is not modified
                obs = dict(columns=list(got.columns), index=[int(x) for x in got.index], rows=[values(got[c]) for c in got.columns])
            except Exception as e:
                ok, obs = False, f"{type(e).__name__}: {e}"
            B.check(contract, ok, case, obs, dict(index=[int(x) for x in pix.index], columns={k: [norm(v) for v in vs] for k, vs in exp.items()}),
                    len(seq) > 0, sig)

    def variants(self):
        vs = []
        for colkind in ("both", "both", "bin1-only", "bin2-only", "both-swapped-order"):
            for ix in INDEX_KINDS:
                vs.append((colkind, ix))
        return vs

    def pick(self, k):
        vs = self.variants()
        colkind, ix = vs[k % len(vs)]
        dt = ID_DTYPES[(k // 3) % len(ID_DTYPES)]
        return (colkind, ix, dt, (k % 5) == 2), bool((k // 2) % 2)

    def sweep_sequences(self, maxlen, selector_every):
        """every sequence (any order, repeats allowed) of (bin1, bin2) pairs up to maxlen x every admissible bin-table form;
        pixel-frame shape (which id columns, index labels, id dtype, extra column) and `replace` rotate"""
        n = self.ref.nbins
        pairs = [(i, j) for i in range(n) for j in range(n)]
        k = 0
        for m in range(0, maxlen + 1):
            for seq in itertools.product(pairs, repeat=m):
                if m == 0:
                    # the empty pixel table in every shape
                    for kk in range(len(self.variants())):
                        variant, replace = self.pick(kk)
                        self.one([], variant, replace, None, selector_forms=True)
                    continue
                variant, replace = self.pick(k)
                self.one(list(seq), variant, replace, None, selector_forms=(k % selector_every == 0))
                k += 1

    def sweep_stored(self, rng, nperm):
        """many pixels relative to the bin count: the cooler's own pixel table, whole and as sub-sequences, in several orders"""
        ref = self.ref
        b1 = [int(x) for x in ref.tab["pixels"]["bin1_id"]]
        b2 = [int(x) for x in ref.tab["pixels"]["bin2_id"]]
        stored = list(zip(b1, b2))
        if not stored:
            return
        seqs = [("stored-order", stored), ("reversed", stored[::-1]), ("by-bin2", sorted(stored, key=lambda p: (p[1], p[0]))),
                ("doubled", stored + stored), ("transposed", [(b, a) for a, b in stored])]
        for t in range(nperm):
            s = stored[:]
            rng.shuffle(s)
            seqs.append((f"shuffle#{t}", s))
            m = rng.randrange(1, len(stored) + 1)
            seqs.append((f"sample#{t}", [rng.choice(stored) for _ in range(m)]))
        k = 0
        for name, seq in seqs:
            for rep in range(3):
                variant, replace = self.pick(k * 3 + rep + 1)
                self.one(seq, variant, replace, None if len(seq) <= 12 else dict(order=name, pixels=[list(p) for p in seq]), selector_forms=True)
            k += 1


# ------------------------------------------------------------------ coolers
def build(B, tag, bins, A, symm, int_chroms=False):
    n = len(bins)
    b = bins.copy()
    w = np.array([(k + 2) / 8.0 for k in range(n)])
    w[1 % n] = np.nan
    b["weight"] = w
    pix = pixels_from_dense(A, symm)
    pix["score"] = np.array([0.25 * (t + 1) for t in range(len(pix))], dtype=float)
    p = make_cooler(B.path(f"{tag}.cool"), b, pix, symm, columns=["count", "score"], dtypes={"score": float})
    with h5py.File(p, "r+") as h:
        # a byte-string bin column (decoded elementwise by get)
        h["bins"].create_dataset("label", data=np.array([f"L{k}x{'y' * (k % 3)}" for k in range(n)], dtype="S"))
        if int_chroms:
            codes = h["bins/chrom"][:]
            del h["bins/chrom"]
            h["bins"].create_dataset("chrom", data=np.asarray(codes, dtype=np.int32))
    return p


def main():
    B = Bounded("C14", "bounded/C14.py")
    cap_failures(B)
    tabs = dict(bin_tables(small=not B.thorough))
    if B.thorough:
        sel_full = ["one-bin-chroms", "fixed10-short-last"]
        sel_core = ["variable", "fixed10-exact", "single-chrom-fixed", "fixed-3chrom", "variable-long-last"]
        ann = [("one-bin-chroms", 4), ("fixed10-short-last", 2), ("variable", 2)]
    else:
        sel_full = ["one-bin-chroms"]
        sel_core = ["fixed10-short-last"]
        ann = [("one-bin-chroms", 3), ("fixed10-short-last", 2)]
    wide_full = "EVERY column selection" if B.thorough else "the 8 core selections + every single column in list and string form (pixels table: 4 selections)"
    wide_core = "8 core column selections" if B.thorough else "4 column selections (None, canonical triple/pair, one string, one re-ordered pair)"
    B.bound = (
        "selectors: chroms/bins/pixels x EVERY column selection (None, every non-empty subset as a list in stored order, every single name as a string, "
        "3 re-orderings) x ~18 slice spellings (open/empty/negative/reversed/one-row), and EVERY slice [a:b], a,b in {None,-n..n} (reversed = empty) + every "
        f"scalar -n..n-1 for: the chroms table (all selections), tables {sel_full} -> {wide_full}; tables {sel_core} -> {wide_core}; "
        "bins table also with integer-encoded chromosomes (Cooler on an open handle, square storage) and convert_enum=False (selections with 'chrom' x every "
        "slice); empty pixel table; byte-string / float(NaN) bin columns, extra pixel column; core.get(grp, lo, hi|None, fields) for all 0<=lo<=hi<=n; "
        "slices with a bound beyond the table (a,b in {-n-2,-n-1,n+1,n+3}) x 4 selections; "
        "fetch(region) on bins/pixels selectors for whole/aligned/unaligned non-empty ranges; pixels(join=True) x 5 field lists. "
        f"annotate: for (table, L) in {ann}: EVERY sequence of <=L (bin1,bin2) pairs over all n^2 pairs (any order, repeats) x the full frame + EVERY "
        "contiguous partial frame [p,q) containing the ids used (+ selector / column-subset selector / convert_enum=False selector / column-subset "
        "frame on every 6th (3-bin table) / 10th sequence), rotating over {both ids, bin1 only, bin2 only, swapped column order} x 4 index labelings x int64/int32/uint32 ids "
        "x extra column x replace; the stored pixel table in 5 orders + shuffles/samples (many pixels); enum and integer encodings"
        + ("; PLUS seeded sampling: 60 random sequences (1..3n pixels) on each of 8 random 6-9 bin tables" if B.thorough else ""))
    B.rule = ("case = (table, encoding, selector table, fields, range | pixel sequence, pixel-frame shape, bins form, replace); "
              "non-trivial when the selected range / pixel sequence is non-empty; distinct by case")
    B.exhaustive = not B.thorough
    rng = B.rng

    def mat(n, name):
        return dict(matrices(n, random.Random(2000 + n), 5))[name]

    # ---------------- part A
    # (the chroms and pixels tables do not depend on the chromosome encoding of the bin table: they are swept on the enum file,
    #  the integer-encoded file gets the bins table, get(), fetch and the join)
    for tname in sel_full + sel_core:
        bins = tabs[tname]
        n = len(bins)
        full = tname in sel_full
        mname = "dense" if (n <= 3) else "sparse-empty-row"
        p = build(B, f"sel-{tname}-enum", bins, mat(n, mname), True)
        sc = SelectorChecks(B, p, dict(bins=tname, chrom_encoding="enum", matrix=mname, symmetric_upper=True, store="path"))
        sc.sweep_table("chroms", ["name", "length"], wide="all")
        sc.sweep_table("bins", ["chrom", "start", "end"], wide=("all" if B.thorough else "singles") if full else ("core" if B.thorough else "few"))
        sc.sweep_table("pixels", ["bin1_id", "bin2_id"], wide=("all" if full else "core") if B.thorough else "few")
        sc.sweep_table("bins", ["chrom", "start", "end"], wide=None, convert_enum=False, only_with="chrom",
                       wide_specs=[None, "chrom", ["end", "chrom"]] if full or B.thorough else ["chrom"])
        for t in ("chroms", "bins", "pixels"):
            sc.sweep_get(t)
        sc.sweep_beyond("chroms", ["name", "length"])
        sc.sweep_beyond("bins", ["chrom", "start", "end"])
        sc.sweep_beyond("pixels", ["bin1_id", "bin2_id"])
        sc.sweep_fetch()
        sc.sweep_pixels_join(full=full)
        # integer-encoded chromosomes, square storage, Cooler built on an open h5py handle
        p = build(B, f"sel-{tname}-int", bins, mat(n, mname), False, int_chroms=True)
        with h5py.File(p, "r") as h5:
            sc = SelectorChecks(B, p, dict(bins=tname, chrom_encoding="int", matrix=mname, symmetric_upper=False, store="handle"), store=h5)
            sc.sweep_table("bins", ["chrom", "start", "end"], wide=None, only_with="chrom",
                           wide_specs=[None, "chrom", ["end", "chrom"], ["chrom"]] + ([["chrom", "start", "end"], ["weight", "chrom"]] if B.thorough else []))
            if B.thorough:
                sc.sweep_table("bins", ["chrom", "start", "end"], wide=None, convert_enum=False, only_with="chrom", wide_specs=[None, "chrom"])
                sc.sweep_table("pixels", ["bin1_id", "bin2_id"], wide="few")
            sc.sweep_get("bins")
            sc.sweep_fetch()
            sc.sweep_pixels_join(full=False)
        if full:
            # the empty pixel table
            p = build(B, f"sel-{tname}-empty", bins, mat(n, "empty"), True)
            sc = SelectorChecks(B, p, dict(bins=tname, chrom_encoding="enum", matrix="empty", symmetric_upper=True, store="path"))
            sc.sweep_table("pixels", ["bin1_id", "bin2_id"], wide="all")
            sc.sweep_pixels_join(full=True)
            sc.sweep_get("pixels")

    # ---------------- part B
    for (tname, L) in ann:
        bins = tabs[tname]
        n = len(bins)
        for enc in (("enum", "int") if (B.thorough or n <= 3) else ("enum",)):
            if enc == "int" and L > 2:
                L = 2
            p = build(B, f"ann-{tname}-{enc}", bins, mat(n, "dense"), True, int_chroms=(enc == "int"))
            ac = AnnotateChecks(B, p, dict(bins=tname, nbins=n, chrom_encoding=enc))
            ac.sweep_sequences(L, selector_every=(6 if n <= 3 else 10))
            ac.sweep_stored(rng, nperm=3 if B.thorough else 1)
    if B.thorough:
        for t in range(8):
            n = rng.choice([6, 7, 8, 9])
            nchrom = rng.choice([1, 2, 3])
            cuts = sorted(rng.sample(range(1, n), nchrom - 1)) if nchrom > 1 else []
            rows = []
            for ci, nb in enumerate(b - a for a, b in zip([0] + cuts, cuts + [n])):
                edges = [0] + sorted(rng.sample(range(1, 200), nb))
                rows += [(f"s{ci}", a, b) for a, b in zip(edges[:-1], edges[1:])]
            bins = pd.DataFrame(rows, columns=["chrom", "start", "end"])
            A = B.nprng.integers(1, 9, size=(n, n)) * (B.nprng.random((n, n)) < 0.4)
            p = build(B, f"ann-rand-{t}", bins, A, bool(t % 2), int_chroms=(t % 3 == 0))
            ac = AnnotateChecks(B, p, dict(random_table=t, seed=B.seed, nbins=n, chrom_encoding="int" if t % 3 == 0 else "enum"))
            for q in range(60):
                m = rng.choice([1, 2, 3, n - 1, n, n + 1, 2 * n, 3 * n])
                lo = rng.randrange(n)
                hi = rng.randrange(lo, n)
                seq = [(rng.randint(lo, hi), rng.randint(lo, hi)) for _ in range(m)]
                variant, replace = ac.pick(rng.randrange(1000))
                ac.one(seq, variant, replace, None, selector_forms=(q % 3 == 0))
            ac.sweep_stored(rng, nperm=2)
    return B.finish()


if __name__ == "__main__":
    sys.exit(main())
