"""C18 bounded stand-in: rename_chroms changes names only.

For every cooler of the scope and every injective partial renaming map (and
chains of such maps) the REAL rename_chroms is run on a private copy of the
file.  Afterwards - on the very object that was passed in AND on a freshly
opened Cooler - we check

  * names: chromnames / chromsizes index / chroms table / bin-table labels and
    categories are rho(old names) in the ORIGINAL order (rho(x) = map.get(x, x));
  * relational clause of the statement: every name-based lookup through
    rho(name) returns what the lookup through `name` returned on the pristine
    file (extent, offset, bins/pixels/matrix fetch for 1 and 2 regions, string
    and tuple sub-regions), and an old name that is no longer a name is rejected;
  * frame: read with plain h5py, every dataset and attribute of the file other
    than <root>/chroms/name and <root>/bins/chrom is identical; the codes of
    bins/chrom are unchanged and, when enum-encoded, the enum dictionary is
    exactly {rho(name_i): i}; index-based queries (matrix[:], windows, pixels[:],
    balanced matrix) are unchanged and equal an independent recomputation from
    the input tables; sibling collections of the same file are untouched.
"""
import sys, os
sys.path.insert(0, os.path.dirname(os.path.dirname(os.path.abspath(__file__))))
import itertools
import math
import shutil
import traceback
import warnings
import numpy as np
import h5py
import cooler
from bounded.common import *

warnings.filterwarnings("ignore")


# ----------------------------------------------------------------- helpers
def cap_failures(B, per_sig=2):
    """record at most per_sig violations per failure class (signature); further ones are still
    counted as evaluations.  Keeps a known class from using up all the violation slots."""
    orig, seen = B.fail, {}

    def fail(contract, case, observed, expected, signature=None):
        sig = signature or contract
        seen[sig] = seen.get(sig, 0) + 1
        if seen[sig] > per_sig:
            B.evaluations += 1
            B.contracts[contract] = B.contracts.get(contract, 0) + 1
            return
        orig(contract, case, observed, expected, signature)
    B.fail = fail


def canon(x):
    """JSON-able canonical form with NaN made comparable"""
    if isinstance(x, pd.DataFrame):
        return {str(c): canon(x[c].to_numpy()) for c in x.columns}
    if isinstance(x, pd.Series):
        return canon(x.to_numpy())
    if isinstance(x, np.ndarray):
        return [canon(v) for v in x.tolist()]
    if isinstance(x, (list, tuple)):
        return [canon(v) for v in x]
    if isinstance(x, dict):
        return {str(k): canon(v) for k, v in x.items()}
    if isinstance(x, bytes):
        return x.decode("latin1")
    if isinstance(x, (float, np.floating)):
        return "nan" if math.isnan(x) else float(x)
    if isinstance(x, (np.integer,)):
        return int(x)
    if isinstance(x, (np.bool_,)):
        return bool(x)
    return x


def short(names):
    """long names would make case dicts unreadable"""
    return [n if len(n) <= 24 else f"{n[:3]}..x{len(n)}" for n in names]


def raw_snapshot(path):
    """every dataset (values, and dtype unless enum) and every attribute of the file, by plain h5py"""
    out = {}
    with h5py.File(path, "r") as f:
        out["@/"] = canon(dict(f.attrs))

        def visit(name, obj):
            out["@" + name] = canon({k: v for k, v in obj.attrs.items()})
            if isinstance(obj, h5py.Dataset):
                enum = h5py.check_dtype(enum=obj.dtype)
                out[name] = {"data": canon(obj[()]), "kind": obj.dtype.kind,
                             "enum": None if enum is None else {str(k): int(v) for k, v in enum.items()}}
        f.visititems(visit)
    return out


def to_int_encoding(path, root):
    """store bins/chrom as plain integer codes (the library's fallback layout for many contigs)"""
    with h5py.File(path, "r+") as f:
        g = f[root]["bins"]
        codes = g["chrom"][:].astype(np.int32)
        del g["chrom"]
        d = g.create_dataset("chrom", data=codes, dtype=np.int32)
        d.attrs["enum_path"] = "/chroms/name"


def subregions(bins_c):
    """a few non-empty sub-ranges (start, end) of one chromosome, taken from its bins"""
    st, en = bins_c["start"].tolist(), bins_c["end"].tolist()
    L = en[-1]
    out = [(0, L)]
    if len(st) > 1:
        out.append((st[1], L))
        out.append((0, en[0]))
        out.append((st[1] + 1, en[-1] - 1) if st[1] + 1 < en[-1] - 1 else (st[1], L))
    else:
        if L > 2:
            out.append((1, L - 1))
    return sorted(set(out))


def idx(labels, names):
    """labels -> chromosome indices under the CURRENT name list (so that observations are name-free)"""
    pos = {n: i for i, n in enumerate(names)}
    # (with integer-encoded bins/chrom the joined pixel tables carry the integer ids themselves:
    #  those are compared as ids, never looked up as names)
    return [f"#{int(l)}" if isinstance(l, (int, np.integer)) else pos.get(str(l), f"?{str(l)[:20]}") for l in labels]


def table_obs(df, names, labelcols=("chrom", "chrom1", "chrom2")):
    d = {}
    for c in df.columns:
        if c in labelcols:
            d[c] = idx(df[c].tolist(), names)
        else:
            d[c] = canon(df[c].to_numpy())
    return d


def observe(clr, names, bins, has_weight, full=True):
    """Name-free record of what the Cooler object answers.  `names` are the names the
    caller expects to be current; every lookup is spelled with them, every label in a
    result is translated back to the chromosome index."""
    o = {}

    def put(contract, key, fn, light=False):
        if not (full or light):
            return
        try:
            o[(contract, key)] = fn()
        except Exception as e:  # recorded; compared with the pristine observation
            o[(contract, key)] = f"EXC {type(e).__name__}"

    n = len(bins)
    L = True  # marks the queries that are also made in the light observation
    put("index-queries-unchanged", "matrix[:]", lambda: canon(clr.matrix(balance=False)[:]), L)
    put("index-queries-unchanged", "sparse[:]", lambda: canon(clr.matrix(balance=False, sparse=True)[:].toarray()))
    put("index-queries-unchanged", "pixels[:]", lambda: canon(clr.pixels()[:]), L)
    put("index-queries-unchanged", "matrix[1:,:-1]", lambda: canon(clr.matrix(balance=False)[1:, :n - 1]))
    put("index-queries-unchanged", "matrix[0]", lambda: canon(clr.matrix(balance=False)[0]))
    put("index-queries-unchanged", "shape", lambda: list(clr.shape))
    put("index-queries-unchanged", "info", lambda: canon(clr.info), L)
    put("index-queries-unchanged", "binsize/mode", lambda: [canon(clr.binsize), clr.storage_mode])
    if has_weight:
        put("index-queries-unchanged", "balanced[:]", lambda: canon(clr.matrix(balance=True)[:]))
    put("bin-table-relabelled-only", "bins[:]", lambda: table_obs(clr.bins()[:], names), L)
    put("bin-table-relabelled-only", "bins[1:]", lambda: table_obs(clr.bins()[1:], names))
    put("bin-table-relabelled-only", "bins['chrom'][:]", lambda: idx(clr.bins()["chrom"][:].tolist(), names))
    put("bin-table-relabelled-only", "pixels(join)[:]", lambda: table_obs(clr.pixels(join=True)[:], names), L)
    put("bin-table-relabelled-only", "matrix(as_pixels,join)[:]",
        lambda: table_obs(clr.matrix(balance=False, as_pixels=True, join=True)[:], names))
    put("chrom-lengths-unchanged", "chromsizes", lambda: canon(clr.chromsizes.to_numpy()), L)
    put("chrom-lengths-unchanged", "chroms[:].length", lambda: canon(clr.chroms()[:]["length"]), L)
    put("chrom-lengths-unchanged", "chroms[1:].length", lambda: canon(clr.chroms()[1:]["length"]))
    for i, nm in enumerate(names):
        bc = bins[bins["chrom_idx"] == i]
        put("lookup-by-new-name==old", f"extent({i})", lambda: canon(clr.extent(nm)), L)
        put("lookup-by-new-name==old", f"offset({i})", lambda: canon(clr.offset(nm)))
        put("lookup-by-new-name==old", f"chromsizes[{i}]", lambda: canon(clr.chromsizes[nm]), L)
        put("lookup-by-new-name==old", f"bins.fetch({i})", lambda: table_obs(clr.bins().fetch(nm), names), L)
        put("lookup-by-new-name==old", f"pixels.fetch({i})", lambda: canon(clr.pixels().fetch(nm)))
        put("lookup-by-new-name==old", f"matrix.fetch({i})", lambda: canon(clr.matrix(balance=False).fetch(nm)), L)
        for q, (s, e) in enumerate(subregions(bc)):
            put("lookup-by-new-name==old", f"extent(({i},{s},{e}))", lambda: canon(clr.extent((nm, s, e))), q == 1)
            if ":" not in nm and "-" not in nm:
                put("lookup-by-new-name==old", f"matrix.fetch('{i}:{s}-{e}')",
                    lambda: canon(clr.matrix(balance=False).fetch(f"{nm}:{s}-{e}")), q == 1)
                put("lookup-by-new-name==old", f"bins.fetch('{i}:{s}-{e}')",
                    lambda: table_obs(clr.bins().fetch(f"{nm}:{s}-{e}"), names))
            put("lookup-by-new-name==old", f"pixels.fetch(({i},{s},{e}))", lambda: canon(clr.pixels().fetch((nm, s, e))))
        for j, nm2 in enumerate(names):
            if i != j:
                nxt = j == (i + 1) % len(names)
                put("lookup-by-new-name==old", f"matrix.fetch({i},{j})",
                    lambda: canon(clr.matrix(balance=False).fetch(nm, nm2)), nxt)
                if has_weight and nxt:
                    put("lookup-by-new-name==old", f"balanced.fetch({i},{j})",
                        lambda: canon(clr.matrix(balance=True).fetch(nm, nm2)))
                    s, e = subregions(bc)[-1]
                    put("lookup-by-new-name==old", f"sparse.fetch(({i},{s},{e}),{j})",
                        lambda: canon(clr.matrix(balance=False, sparse=True).fetch((nm, s, e), nm2).toarray()))
    return o


def injective_maps(cur, reduced=False):
    """all partial maps on the current names built from per-chromosome options
    keep / explicit identity / shorter-or-same / longer / the name of another chromosome,
    restricted to those whose result is injective (requires of the property)"""
    opts = []
    for i, nm in enumerate(cur):
        sh = str(i + 1) if str(i + 1) != nm else str(i + 7)
        o = [None, nm + "_renamed_much_longer", *[x for x in cur if x != nm]]
        if not reduced:
            o[1:1] = [nm, sh]
        opts.append(o)
    out = []
    for choice in itertools.product(*opts):
        m = {nm: c for nm, c in zip(cur, choice) if c is not None}
        new = [m.get(x, x) for x in cur]
        if len(set(new)) == len(new):
            out.append(m)
    return out


# ----------------------------------------------------------------- one case
class Scenario:
    """a pristine file with one target collection (and possibly siblings) + its pristine observation"""

    def __init__(self, B, tag, tname, bins, mname, A, symm, encoding, root, siblings):
        self.B, self.tag, self.root, self.encoding = B, tag, root, encoding
        n = len(bins)
        self.bins = bins.copy()
        self.names0 = list(dict.fromkeys(bins["chrom"]))
        self.bins["chrom_idx"] = [self.names0.index(c) for c in bins["chrom"]]
        self.lengths = [int(bins[bins.chrom == c]["end"].max()) for c in self.names0]
        w = np.linspace(0.5, 1.5, n)
        if n > 2:
            w[1] = np.nan
        b = bins.copy()
        b["weight"] = w
        self.pix = pixels_from_dense(A, symm)
        self.F = full_matrix(self.pix, n, symm)
        self.path = B.path(f"{tag}.cool")
        self.base = dict(table=tname, matrix=mname, symmetric_upper=symm, encoding=encoding, root=root,
                         siblings=bool(siblings))
        for sroot in siblings:  # sibling collections with DIFFERENT content, same chromosome names
            sp = pixels_from_dense(np.triu(A.T + 1), True)
            cooler.create_cooler(self.path + "::" + sroot, bins, sp, ordered=True, mode="a")
        cooler.create_cooler(self.path + "::" + root, b, self.pix, symmetric_upper=symm, ordered=True, mode="a")
        if encoding == "int":
            to_int_encoding(self.path, root)
        self.raw0 = raw_snapshot(self.path)
        self.obs0 = observe(cooler.Cooler(self.path + "::" + root), self.names0, self.bins, True)
        # independent recomputation of the pristine index-based answers from the INPUT tables
        case = dict(self.base, step="pristine")
        B.check("pristine-reads-as-input", self.obs0[("index-queries-unchanged", "matrix[:]")] == canon(self.F), case,
                self.obs0[("index-queries-unchanged", "matrix[:]")], canon(self.F))
        B.check("pristine-reads-as-input",
                self.obs0[("bin-table-relabelled-only", "bins[:]")]["chrom"] == self.bins["chrom_idx"].tolist()
                and self.obs0[("bin-table-relabelled-only", "bins[:]")]["start"] == bins["start"].tolist()
                and self.obs0[("bin-table-relabelled-only", "bins[:]")]["end"] == bins["end"].tolist(), case,
                self.obs0[("bin-table-relabelled-only", "bins[:]")], "input bin table")
        B.check("pristine-reads-as-input", self.obs0[("chrom-lengths-unchanged", "chromsizes")] == self.lengths, case,
                self.obs0[("chrom-lengths-unchanged", "chromsizes")], self.lengths)
        bad = [k for k, v in self.obs0.items() if isinstance(v, str) and v.startswith("EXC")]
        B.check("pristine-reads-as-input", not bad, case, bad, "no exception on the pristine file")
        self.ncase = 0

    def rel(self, p):  # dataset path relative to the file root
        return (self.root.strip("/") + "/" + p).strip("/")

    def run_chain(self, maps, store_form="uri", level=2):
        """never lets an exception escape: whatever a broken rename leaves behind becomes a recorded failure"""
        try:
            self._run_chain(maps, store_form, level)
        except Exception as e:
            self.B.fail("runner-examined-the-renamed-file", dict(self.base, store=store_form,
                        maps=[{short([a])[0]: short([b])[0] for a, b in mm.items()} for mm in maps]),
                        f"{type(e).__name__}: {str(e)[:300]}\n{traceback.format_exc(limit=5)}", "no exception",
                        f"runner-examined-the-renamed-file:exception:{self.encoding}")

    def _run_chain(self, maps, store_form="uri", level=2):
        """level 2: full observation on the same object, light on the reopened one;
        level 1: light on both; level 0: light on the same object, names only on the reopened one"""
        """apply the maps successively on ONE Cooler object; check after every step"""
        B = self.B
        self.ncase += 1
        work = B.path(f"{self.tag}-w{self.ncase}.cool")
        shutil.copyfile(self.path, work)
        uri = work + "::" + self.root
        h5 = None
        if store_form == "path":
            clr = cooler.Cooler(work)  # only used when root == "/"
        elif store_form == "handle":
            h5 = h5py.File(work, "r+")
            clr = cooler.Cooler(h5[self.root])
        else:
            clr = cooler.Cooler(uri if self.ncase % 2 else work + "::" + self.root.lstrip("/"))
        cur = list(self.names0)
        enc_now = self.encoding
        fell_back = False  # an earlier step of this chain overflowed the enum header (file is integer-encoded since)
        try:
            for k, m in enumerate(maps):
                new = [m.get(x, x) for x in cur]
                case = dict(self.base, store=store_form,
                            maps=[{short([a])[0]: short([b])[0] for a, b in mm.items()} for mm in maps[:k + 1]])
                # the library documents a fallback to integer codes when the HDF5 enum header (64 KiB) cannot
                # hold the names; such steps get their own failure class
                overflow = enc_now == "enum" and sum(len(x) for x in new) > 60000
                fell_back = fell_back or overflow
                kind = self.encoding + ("+enum-header-overflow" if fell_back else "")
                nt = new != cur
                r = B.guarded("rename-succeeds", case, lambda: (cooler.rename_chroms(clr, dict(m)), True)[1],
                              signature=f"rename-succeeds:exception:{kind}")
                if r is None:
                    return
                B.ok("rename-succeeds", case, nt)
                stale = [x for x in cur if x not in new]
                for who, c in (("same-object", clr), ("reopened", None)):
                    if c is None:
                        c = B.guarded("names==renamed-in-order", dict(case, on=who), lambda: cooler.Cooler(uri),
                                      signature=f"reopen:exception:{kind}")
                        if c is None:
                            continue
                    lv = level if who == "same-object" else level - 1
                    self.check_object(c, who, case, new, stale, nt, kind, lv)
                enc_now = self.check_raw(work, case, new, nt, kind, enc_now, overflow)
                cur = new
        finally:
            try:
                if h5 is not None:
                    h5.close()
            except Exception:
                pass
            try:
                os.remove(work)
            except OSError:
                pass

    def check_object(self, c, who, case, new, stale, nt, kind, level):
        B = self.B
        case = dict(case, on=who)
        sig = lambda name: f"{name}:{kind}"
        got = B.guarded("names==renamed-in-order", case, lambda: list(c.chromnames), sig("names==renamed-in-order:exception"))
        if got is not None:
            B.check("names==renamed-in-order", got == new, dict(case, via="chromnames"), short(got), short(new), nt,
                    sig("names==renamed-in-order"))
        got = B.guarded("names==renamed-in-order", case, lambda: list(c.chromsizes.index), sig("names==renamed-in-order:exception"))
        if got is not None:
            B.check("names==renamed-in-order", got == new, dict(case, via="chromsizes.index"), short(got), short(new), nt,
                    sig("names==renamed-in-order"))
        got = B.guarded("names==renamed-in-order", case, lambda: c.chroms()[:]["name"].tolist(), sig("names==renamed-in-order:exception"))
        if got is not None:
            B.check("names==renamed-in-order", got == new, dict(case, via="chroms()[:].name"), short(got), short(new), nt,
                    sig("names==renamed-in-order"))
        got = B.guarded("names==renamed-in-order", case, lambda: c.bins()[:]["chrom"], sig("names==renamed-in-order:exception"))
        if got is not None:
            exp = [new[i] for i in self.bins["chrom_idx"]]
            ok = [str(x) for x in got.tolist()] == exp
            if isinstance(got.dtype, pd.CategoricalDtype):
                ok = ok and [str(x) for x in got.cat.categories] == new and got.cat.codes.tolist() == self.bins["chrom_idx"].tolist()
            B.check("names==renamed-in-order", ok, dict(case, via="bins()[:].chrom labels+categories"),
                    short([str(x) for x in got.tolist()]), short(exp), nt, sig("names==renamed-in-order"))
        if level < 0:
            return
        obs = observe(c, new, self.bins, True, full=level >= 2)
        for (contract, key), g in obs.items():
            exp = self.obs0[(contract, key)]
            B.check(contract, g == exp, dict(case, query=key), g, exp, nt, sig(contract))
        for old in stale[:1 if level < 2 else None]:
            for qname, q in (("extent", lambda: c.extent(old)), ("matrix.fetch", lambda: c.matrix(balance=False).fetch(old)),
                             ("bins.fetch", lambda: c.bins().fetch((old, 0, 1)))):
                try:
                    r = q()
                    rejected = False
                except (ValueError, KeyError) as e:
                    r, rejected = type(e).__name__, True
                except Exception as e:
                    r, rejected = f"unexpected {type(e).__name__}: {e}", False
                B.check("stale-name-rejected", rejected, dict(case, query=qname, old=old), canon(r) if not rejected else r,
                        "ValueError/KeyError", True, sig("stale-name-rejected"))

    def check_raw(self, work, case, new, nt, kind, enc_now, overflow):
        B = self.B
        raw = B.guarded("frame:other-datasets-and-attrs-identical", case, lambda: raw_snapshot(work),
                        f"raw-read:exception:{kind}")
        if raw is None:
            return enc_now
        pn, pc = self.rel("chroms/name"), self.rel("bins/chrom")
        skip = {pn, pc, "@" + pn, "@" + pc}
        diff = sorted(k for k in set(raw) | set(self.raw0) if k not in skip and raw.get(k) != self.raw0.get(k))
        B.check("frame:other-datasets-and-attrs-identical", not diff, case, diff, [], nt,
                f"frame:other-datasets-and-attrs-identical:{kind}")
        got = raw.get(pn, {}).get("data")
        B.check("raw:chroms.name==renamed", got == new, case, short(got or []), short(new), nt, f"raw:chroms.name==renamed:{kind}")
        d, d0 = raw.get(pc), self.raw0[pc]
        ok = d is not None and d["data"] == d0["data"] and d["kind"] in "iu"
        B.check("raw:bins.chrom-codes-unchanged", ok, case, d and d["data"], d0["data"], nt, f"raw:bins.chrom-codes-unchanged:{kind}")
        if d is not None and d["enum"] is not None:
            exp = {nm: i for i, nm in enumerate(new)}
            B.check("raw:enum-dictionary=={new_i:i}", d["enum"] == exp, case, {k[:24]: v for k, v in d["enum"].items()},
                    {k[:24]: v for k, v in exp.items()}, nt, f"raw:enum-dictionary:{kind}")
        elif d is not None:
            # integer codes: stored so before this step, or the library's documented fallback when the enum
            # header cannot hold the new names.  An enum-encoded file must otherwise stay enum-encoded.
            B.check("raw:encoding-kept", enc_now == "int" or overflow, case, "integer codes", "enum", nt,
                    f"raw:encoding-kept:{kind}")
            return "int"
        return enc_now


def main():
    B = Bounded("C18", "bounded/C18.py")
    B.max_violations = 40
    cap_failures(B)
    try:
        body(B)
    except Exception as e:  # the runner must ALWAYS end with the JSON line
        B.fail("runner-completed", dict(stage="main"), f"{type(e).__name__}: {str(e)[:300]}\n{traceback.format_exc(limit=6)}",
               "no exception", "runner-completed:exception")
    return B.finish()


def body(B):
    T = dict(bin_tables(small=False))
    rngm = lambda n: dict(matrices(n, random.Random(B.seed), 5))
    # (table, matrix, symmetric_upper, nested-with-siblings, full option set for the single-step maps)
    if B.thorough:
        plan = [("one-bin-chroms", "dense", True, True, True), ("one-bin-chroms", "sparse-empty-row", False, False, False),
                ("fixed-3chrom", "dense", False, False, True), ("fixed-3chrom", "corners", True, True, False),
                ("fixed10-short-last", "dense", False, False, True), ("fixed10-short-last", "dense", True, True, True),
                ("variable", "sparse-empty-row", True, False, True), ("variable", "dense", False, False, True),
                ("variable-long-last", "dense", True, False, True),
                ("single-chrom-fixed", "dense", True, False, True), ("fixed10-exact", "empty", True, False, True)]
    else:
        plan = [("one-bin-chroms", "dense", True, True, False), ("fixed10-short-last", "dense", False, False, True),
                ("variable", "sparse-empty-row", True, False, False), ("single-chrom-fixed", "dense", True, False, True),
                ("fixed10-exact", "empty", False, False, False)]
    B.bound = ("single step: ALL injective partial maps built from per-chromosome options {keep, longer, name of another "
               "chromosome (swaps/rotations)} [+ {explicit identity, shorter/same-length} on the coolers marked full] on "
               + str(len(plan)) + " coolers (1-3 chromosomes, fixed/variable bins, both storage modes, root and nested "
               "group with sibling collections) x {enum, integer} chromosome encodings; chains: ALL ordered pairs of "
               "non-empty injective maps (options {keep, longer, other}" + (" + identity, shorter" if B.thorough else "") +
               ") on a 2-chromosome cooler x both encodings" + ("" if B.thorough else " (every second pair on the integer-encoded one)") + ", 3-step swap via a temporary name, swap twice, there-and-back; "
               "store given as path / URI with and without leading slash / open r+ handle; 30-40k-character names forcing "
               "the integer fallback" + ("; 150 seeded random 3-step chains on 3 chromosomes with random names" if B.thorough else "")
               + "; every step checked on the same object and on a reopened one (full query set on every "
               + ("4th" if B.thorough else "8th") + " case, light set otherwise) plus a raw h5py diff of the whole file")
    B.rule = ("case = (cooler, encoding, store form, list of maps so far, object, query); non-trivial when the step changes "
              "at least one name; distinct by case")
    B.exhaustive = not B.thorough
    every = 4 if B.thorough else 8
    scen = {}
    k = 0
    for tname, mname, symm, nested, fullopts in plan:
        bins = T[tname]
        A = rngm(len(bins))[mname]
        for enc in ("enum", "int"):
            k += 1
            root, sib = ("/x/y", ["/", "/x/z"]) if nested else ("/", [])
            try:
                S = Scenario(B, f"s{k}", tname, bins, mname, A, symm, enc, root, sib)
            except Exception as e:
                B.fail("pristine-reads-as-input", dict(table=tname, matrix=mname, symmetric_upper=symm, encoding=enc, root=root),
                       f"{type(e).__name__}: {str(e)[:300]}\n{traceback.format_exc(limit=5)}", "scenario built",
                       "pristine-reads-as-input:exception")
                continue
            scen[(tname, mname, enc, nested)] = S
            for q, m in enumerate(injective_maps(S.names0, reduced=not fullopts)):
                S.run_chain([m], level=2 if q % every == 1 else 0)
    # chains
    S2 = [s for key, s in scen.items() if key[0] == "fixed10-short-last" and not key[3]]
    for S in S2:
        ms = injective_maps(S.names0, reduced=not B.thorough)
        q = 0
        for m1 in ms:
            if not m1:
                continue
            mid = [m1.get(x, x) for x in S.names0]
            for m2 in injective_maps(mid, reduced=not B.thorough):
                if m2:
                    q += 1
                    if not B.thorough and S.encoding == "int" and q % 2:
                        continue   # quick: every second pair on the integer-encoded copy
                    S.run_chain([m1, m2], level=1 if q % every == 1 else 0)
        a, b = S.names0[:2]
        S.run_chain([{a: "tmp"}, {b: a}, {"tmp": b}])                 # swap through a temporary name
        S.run_chain([{a: b, b: a}, {a: b, b: a}])                     # swap twice = identity
        S.run_chain([{a: a + "_L"}, {a + "_L": a}, {a: "1", b: "2"}])  # there and back, then shorter
    # store forms + very long names (integer fallback of an enum-encoded file)
    for key, S in scen.items():
        nm = S.names0
        forms = ["uri", "handle"] + (["path"] if S.root == "/" else [])
        for form in forms:
            S.run_chain([{nm[0]: "Z" + nm[0]}, {nm[-1]: "Q"}], store_form=form, level=1)
    if B.thorough:
        alphabet = "abcXYZ019_.|"
        S3 = [s for key, s in scen.items() if len(s.names0) == 3]
        for it in range(150):
            S = S3[it % len(S3)]
            cur = list(S.names0)
            chain = []
            for _ in range(3):
                m = {}
                for x in cur:
                    r = B.rng.random()
                    if r < 0.35:
                        continue
                    if r < 0.55:
                        m[x] = B.rng.choice(cur)
                    else:
                        m[x] = "".join(B.rng.choice(alphabet) for _ in range(B.rng.randrange(1, 12)))
                new = [m.get(x, x) for x in cur]
                if len(set(new)) != len(new):
                    continue  # not injective: outside the property's quantifier
                chain.append(m)
                cur = new
            if chain:
                S.run_chain(chain, level=2 if it % 4 == 0 else 0)
    # LAST (known failure class): names too long for the HDF5 enum header -> the library's integer fallback
    for key, S in scen.items():
        nm = S.names0
        if len(nm) >= 2 and (B.thorough or key[0] in ("one-bin-chroms", "fixed10-short-last")):
            S.run_chain([{nm[0]: "L" * 40000, nm[1]: "M" * 30000}, {"L" * 40000: "back"}], level=1)


if __name__ == "__main__":
    sys.exit(main())
