"""C13 bounded stand-in: invalid input or a failed write never yields a cooler
nor harms its neighbours.

Fault injection on REAL files with the REAL creation code:

  (a) the validator: every chunk of <= L pixel records over ids in {-1..n} is
      accepted iff all ids are in range, bin1 <= bin2 and no (bin1, bin2) repeats;
  (b) creation stopped at every chunk index 0..m by {the input iterator raising,
      an out-of-range id, a lower-triangle pixel, an in-chunk duplicate, a value the
      write step cannot store - at the first/middle/last row} x destination {new file, new group in a file that holds
      other collections, existing plain group, root of a file with other collections,
      sibling of a nested collection} x producer {ordered, unordered (fault in the
      input pass / in the merge pass), merge_coolers, coarsen_cooler};
      afterwards: the call raised, the destination is not recognised (is_cooler),
      not listed (list_coolers), carries no format attribute (raw h5py), Cooler(uri)
      cannot be mistaken for a finished cooler, and every other object in the file
      is byte-identical (raw h5py walk) and reads back identically through the API.

Faults inside merge/coarsen/unordered-merge are injected by wrapping the
producer's own chunk iterator (CoolerMerger.__iter__ / CoolerCoarsener.__iter__),
i.e. the stream `create` consumes; additionally "natural" faults: source coolers
that hold a lower-triangle pixel, and tiny merge buffers.
"""
import sys, os
sys.path.insert(0, os.path.dirname(os.path.dirname(os.path.abspath(__file__))))
import collections
import contextlib
import itertools
import logging
import warnings

warnings.simplefilter("ignore")
import numpy as np
import h5py
import cooler
from cooler.create import BadInputError, create_cooler, validate_pixels
from cooler.fileops import is_cooler, list_coolers
from bounded.common import *

Counter = collections.Counter


# ------------------------------------------------------------------ plumbing (same helpers as C05)
def quiet_logging():
    from cooler._logging import set_logging_context
    set_logging_context("cli")
    lg = logging.getLogger("cooler")
    for h in lg.handlers[:]:
        lg.removeHandler(h)
    lg.addHandler(logging.NullHandler())
    pw = logging.getLogger("py.warnings")
    pw.addHandler(logging.NullHandler())
    pw.propagate = False
    logging.raiseExceptions = False


def limit_failures(B, per_sig=1):
    orig = B.fail
    seen = Counter()

    def fail(contract, case, observed, expected, signature=None):
        sig = signature or contract
        seen[sig] += 1
        if seen[sig] > per_sig:
            B.evaluations += 1
            B.contracts[contract] = B.contracts.get(contract, 0) + 1
            return
        orig(contract, case, observed, expected, sig)
    B.fail = fail
    B.max_violations = 10 ** 6
    B.sig_seen = seen


class Injected(RuntimeError):
    """the exception our faulty input iterator raises"""


# ------------------------------------------------------------------ the scenario
def make_bins():
    rows = [("a", s, min(s + 10, 50)) for s in range(0, 50, 10)] + [("b", s, min(s + 10, 25)) for s in range(0, 25, 10)]
    return pd.DataFrame(rows, columns=["chrom", "start", "end"])


BINS = make_bins()
NB = len(BINS)                      # 8 bins: a x5, b x3 (short last bin)
NB_COARSE = 3 + 2                   # factor 2, per chromosome: ceil(5/2) + ceil(3/2)


def valid_pixels(symm, salt=0):
    rows = []
    for i in range(NB):
        for j in range(i if symm else 0, NB):
            if (i * 3 + j * 5 + salt) % 4 != 1:
                rows.append((i, j, 1 + (i + 2 * j + salt) % 5))
    return pd.DataFrame(rows, columns=["bin1_id", "bin2_id", "count"]).astype({"bin1_id": np.int64, "bin2_id": np.int64, "count": np.int32})


SPARSE = [pd.DataFrame({"bin1_id": [0, 0, 5, 5], "bin2_id": [0, 3, 5, 7], "count": [1, 2, 3, 4]}),
          pd.DataFrame({"bin1_id": [0, 5, 6], "bin2_id": [3, 6, 7], "count": [5, 6, 7]})]


def split(df, m):
    edges = [round(k * len(df) / m) for k in range(m + 1)]
    return [df.iloc[a:b].reset_index(drop=True) for a, b in zip(edges[:-1], edges[1:])]


def as_form(ch, form):
    return {k: ch[k].values for k in ch.columns} if form == "dict" else ch


# ------------------------------------------------------------------ fault injection on a chunk stream
def inject(ch, fault, n_bins):
    isdict = isinstance(ch, dict)
    df = pd.DataFrame({k: np.asarray(v) for k, v in ch.items()}) if isdict else ch.reset_index(drop=True)
    n = len(df)
    at = {"first": 0, "middle": n // 2, "last": n}[fault["pos"]]
    kind = fault["kind"]
    if kind == "badvalue":
        # ids stay valid (the validator has nothing to object to); the VALUE of one record cannot be stored in the
        # count column, so the write step of this chunk itself fails
        new = df.copy() if n else pd.DataFrame({"bin1_id": [0], "bin2_id": [0], "count": [1]})
        new["count"] = new["count"].astype(object)
        new.loc[min(at, len(new) - 1), "count"] = "not-a-number"
        return {k: new[k].values for k in new.columns} if isdict else new
    src = df.iloc[n - 1 if at == 0 else 0] if n else None
    row = {c: (src[c] if src is not None else 1) for c in df.columns}
    if kind == "dup":
        if n == 0:       # an empty chunk has nothing to duplicate: give it one pixel twice
            row.update(bin1_id=0, bin2_id=0)
            extra = [row, dict(row)]
        else:
            extra = [row]
    else:
        if kind == "oob":
            b1, b2 = {"bin2=n": (int(row["bin1_id"]) if n else 0, n_bins), "bin1=n": (n_bins, n_bins), "bin1=-1": (-1, 0),
                      "bin2=n+3": (0, n_bins + 3)}[fault["variant"]]
        elif kind == "tril":
            b1, b2 = {"far": (n_bins - 1, 0), "adjacent": (1, 0)}[fault["variant"]]
        row.update(bin1_id=b1, bin2_id=b2)
        extra = [row]
    new = pd.concat([df.iloc[:at], pd.DataFrame(extra, columns=df.columns), df.iloc[at:]], ignore_index=True)
    new = new.astype({c: df[c].dtype for c in df.columns})
    return {k: new[k].values for k in new.columns} if isdict else new


def faulty(stream, fault, n_bins, seen):
    """yield the producer's chunks; at chunk index fault['chunk'] either raise (iterator failure BEFORE that chunk,
    index m = after the last chunk) or hand over a chunk with one invalid record inserted"""
    i = -1
    for i, ch in enumerate(stream):
        if fault and fault["chunk"] == i:
            if fault["kind"] == "raise":
                raise Injected(f"input iterator failed before chunk {i}")
            ch = inject(ch, fault, n_bins)
            seen["injected"] = True
        seen["chunks"] = i + 1
        yield ch
    if fault and fault["kind"] == "raise" and fault["chunk"] == i + 1:
        raise Injected(f"input iterator failed after the last chunk ({i + 1})")


@contextlib.contextmanager
def patched_iter(cls, fault, n_bins, seen):
    orig = cls.__iter__

    def it(self):
        return faulty(orig(self), fault, n_bins, seen)
    cls.__iter__ = it
    try:
        yield
    finally:
        cls.__iter__ = orig


def faults(m, symm, full, salt=0):
    """faults for a stream of m chunks: the iterator failing before every chunk index 0..m, plus invalid records /
    unstorable values.  full=True: every kind x chunk x row position; full="kinds": every kind x chunk, the row position
    rotating; full=False: every chunk x row position, the kind rotating; full="perchunk": one per chunk, kind and row rotating"""
    out = [dict(kind="raise", chunk=k) for k in range(m + 1)]
    kinds = ["oob", "dup", "badvalue"] + (["tril"] if symm else [])
    oobv = ["bin2=n", "bin1=n", "bin1=-1", "bin2=n+3"]
    trilv = ["far", "adjacent"]
    c = salt
    for k in range(m):
        for pi, pos in enumerate(("first", "middle", "last")):
            for kind in kinds:
                if full == "perchunk":          # one rejected record / failed write per chunk, kind and row rotating
                    if (k + salt) % 3 != pi or (k + salt) % len(kinds) != kinds.index(kind):
                        continue
                elif full == "kinds":
                    if (k + kinds.index(kind) + salt) % 3 != pi:
                        continue
                elif not full and (k + pi + kinds.index(kind)) % len(kinds) != 0:
                    continue
                f = dict(kind=kind, chunk=k, pos=pos)
                if kind == "oob":
                    f["variant"] = oobv[c % 4]
                elif kind == "tril":
                    f["variant"] = trilv[c % 2]
                c += 1
                out.append(f)
    return out


# ------------------------------------------------------------------ files: templates, destinations, snapshots
def build_templates(B):
    t = {}
    # multi: a root cooler, /a (square storage), /nested/b (other bins), foreign objects, a plain group /exist
    p = B.path("template-multi.cool")
    create_cooler(p, BINS, valid_pixels(True), assembly="rootasm", metadata={"k": [1, 2]})
    create_cooler(p + "::/a", BINS, valid_pixels(False, 1), symmetric_upper=False, mode="a")
    vb = pd.DataFrame({"chrom": ["x", "x", "y"], "start": [0, 3, 0], "end": [3, 11, 4]})
    create_cooler(p + "::/nested/b", vb, pd.DataFrame({"bin1_id": [0, 1], "bin2_id": [2, 1], "count": [7, 9]}), mode="a")
    with h5py.File(p, "r+") as f:
        f.create_dataset("misc/data", data=np.arange(12).reshape(3, 4))
        f["misc"].attrs["note"] = "not a cooler"
        g = f.create_group("exist")
        g.create_dataset("x", data=np.arange(5))
        g.attrs["owner"] = "someone"
        g = f.create_group("nested/plain")          # a plain group next to the nested collection
        g.create_dataset("y", data=np.arange(3))
        f["bins"].create_dataset("weight", data=np.linspace(0.5, 1.5, NB))   # a later-added column of the root cooler
    t["multi"] = p
    # noroot: collections but none at the root
    p2 = B.path("template-noroot.cool")
    create_cooler(p2 + "::/a", BINS, valid_pixels(True, 2))
    create_cooler(p2 + "::/nested/b", vb, pd.DataFrame({"bin1_id": [0, 1], "bin2_id": [2, 1], "count": [7, 9]}), mode="a")
    with h5py.File(p2, "r+") as f:
        f.attrs["owner"] = "someone"
        f.create_dataset("misc/data", data=np.arange(6))
    t["noroot"] = p2
    # sources for merge / coarsen (separate file: the merger keeps its inputs open while the output is written)
    ps = B.path("sources.cool")
    allp = valid_pixels(True)
    create_cooler(ps + "::/s1", BINS, allp[(allp.bin1_id + allp.bin2_id) % 3 != 0].reset_index(drop=True))
    create_cooler(ps + "::/s2", BINS, allp[(allp.bin1_id + allp.bin2_id) % 3 != 1].reset_index(drop=True), mode="a")
    create_cooler(ps + "::/base", BINS, allp, mode="a")
    # sparse sources (most bin1 rows empty): a tiny merge buffer makes the merger itself fail in mid-stream
    create_cooler(ps + "::/sp1", BINS, SPARSE[0], mode="a")
    create_cooler(ps + "::/sp2", BINS, SPARSE[1], mode="a")
    # sources that hold a lower-triangle pixel although stored as symmetric-upper (written with the check disabled)
    for nm, (b1, b2) in (("tril-early", (2, 0)), ("tril-mid", (4, 2)), ("tril-late", (7, 5))):
        bad = pd.concat([allp, pd.DataFrame({"bin1_id": [b1], "bin2_id": [b2], "count": [1]})]).sort_values(["bin1_id", "bin2_id"])
        create_cooler(ps + "::/" + nm, BINS, bad.reset_index(drop=True), mode="a", triucheck=False)
    t["sources"] = ps
    return t


DESTS = {
    # name: (template, group path, mode)
    "new-file": (None, "/", "w"),
    "new-group-in-multi": ("multi", "/new", "a"),
    "existing-plain-group": ("multi", "/exist", "a"),
    "root-of-file-with-collections": ("noroot", "/", "a"),
    "sibling-of-nested-collection": ("multi", "/nested/new", "r+"),
    "existing-nested-plain-group": ("multi", "/nested/plain", "a"),
    "new-file-nonroot-group": (None, "/grp/sub", "w"),
}
QUICK_DESTS = [d for d in DESTS if d != "new-file-nonroot-group"]
ROOT_OWNED = ("/chroms", "/bins", "/pixels", "/indexes")


def owned_by_dest(path, group):
    """objects the destination itself consists of (may be rewritten); everything else is a neighbour"""
    if group == "/":
        return path == "/" or any(path == r or path.startswith(r + "/") for r in ROOT_OWNED)
    return path == group or path.startswith(group + "/")


def _attrs(obj):
    return sorted((k, repr(np.asarray(v).tolist())) for k, v in obj.attrs.items())


def snapshot(path, group):
    """raw h5py walk: every object that is not part of the destination, with dtype, shape, bytes and attributes"""
    out = {}
    if not os.path.exists(path):
        return out
    with h5py.File(path, "r") as f:
        def visit(name, obj):
            full = "/" + name
            if owned_by_dest(full, group):
                return
            if isinstance(obj, h5py.Dataset):
                a = obj[()]
                data = repr(a.tolist()) if a.dtype.kind == "O" else hashlib.md5(np.ascontiguousarray(a).tobytes()).hexdigest()
                out[full] = ("dataset", str(obj.dtype), repr(h5py.check_enum_dtype(obj.dtype)), obj.shape, data, _attrs(obj))
            else:
                out[full] = ("group", _attrs(obj))
        f.visititems(visit)
        if group != "/":
            out["/"] = ("group", _attrs(f))
    return out


def api_view(path, group):
    """the other collections as the library reads them back"""
    out = {}
    if not os.path.exists(path):
        return out
    for g in list_coolers(path):
        if g == group:
            continue
        c = cooler.Cooler(path + "::" + g)
        out[g] = (sorted((k, repr(v)) for k, v in c.info.items()), c.chroms()[:].to_csv(), c.bins()[:].to_csv(),
                  c.pixels()[:].to_csv(), c.matrix(balance=False)[:].tolist())
    return out


class Dest:
    _n = 0

    def __init__(self, B, templates, name):
        tmpl, self.group, self.mode = DESTS[name]
        self.name = name
        Dest._n += 1
        d = B.path(f"d{Dest._n}")
        os.makedirs(d)
        self.dir = d
        self.path = os.path.join(d, "dest.cool")
        if tmpl:
            shutil.copyfile(templates[tmpl], self.path)
        self.uri = self.path if self.group == "/" else self.path + "::" + self.group
        self.template = tmpl

    def cleanup(self):
        shutil.rmtree(self.dir, ignore_errors=True)


_BEFORE = {}


def before(templates, dest):
    key = (dest.template, dest.group)
    if key not in _BEFORE:
        if dest.template is None:
            _BEFORE[key] = ({}, {}, [])
        else:
            p = templates[dest.template]
            _BEFORE[key] = (snapshot(p, dest.group), api_view(p, dest.group), [g for g in list_coolers(p) if g != dest.group])
    return _BEFORE[key]


# ------------------------------------------------------------------ producers
def run_producer(prod, dest, fault, seen, templates, symm=True, form="frame", m=3, opts=None):
    """run one creation; returns None on success or the exception"""
    opts = opts or {}
    src = templates["sources"]
    if fault and fault["kind"] == "natural":
        fault = None           # the fault is in the inputs / options, nothing is injected into the stream
    extra = {k: opts[k] for k in ("metadata", "assembly") if opts.get(k) is not None}     # user metadata / assembly name
    try:
        if prod == "ordered":
            chunks = [as_form(c, form) for c in split(valid_pixels(symm), m)]
            if opts.get("entry") == "create":        # the lower-level entry point
                from cooler.create import create
                create(dest.uri, BINS, faulty(iter(chunks), fault, NB, seen), symmetric_upper=symm, mode=dest.mode, **extra)
            else:
                create_cooler(dest.uri, BINS, faulty(iter(chunks), fault, NB, seen), ordered=True, symmetric_upper=symm, mode=dest.mode, **extra)
        elif prod == "unordered-input":
            chunks = [as_form(c, form) for c in split(valid_pixels(symm), m)]
            chunks = chunks[1:] + chunks[:1]          # not in order
            if opts.get("entry") == "create":
                from cooler.create import create_from_unordered
                create_from_unordered(dest.uri, BINS, faulty(iter(chunks), fault, NB, seen), symmetric_upper=symm, mode=dest.mode,
                                      mergebuf=opts.get("mergebuf", 10 ** 6), max_merge=opts.get("max_merge", 200), **extra)
            else:
                create_cooler(dest.uri, BINS, faulty(iter(chunks), fault, NB, seen), ordered=False, symmetric_upper=symm, mode=dest.mode,
                              mergebuf=opts.get("mergebuf", 10 ** 6), max_merge=opts.get("max_merge", 200), **extra)
        elif prod == "unordered-merge":
            from cooler._reduce import CoolerMerger
            chunks = split(valid_pixels(symm), m)
            chunks = chunks[1:] + chunks[:1]
            if opts.get("sparse"):
                chunks = [SPARSE[1], SPARSE[0]]
            with patched_iter(CoolerMerger, fault, NB, seen):
                create_cooler(dest.uri, BINS, iter(chunks), ordered=False, symmetric_upper=symm, mode=dest.mode,
                              mergebuf=opts.get("mergebuf", 12), **extra)
        elif prod == "merge":
            from cooler._reduce import CoolerMerger
            inputs = opts.get("inputs", ["s1", "s2"])
            with patched_iter(CoolerMerger, fault, NB, seen):
                cooler.merge_coolers(dest.uri, [src + "::/" + s for s in inputs], mergebuf=opts.get("mergebuf", 12), mode=dest.mode,
                                     **{k: v for k, v in extra.items() if k == "metadata"})   # (the assembly is taken from the inputs)
        elif prod == "coarsen":
            from cooler._reduce import CoolerCoarsener
            base = opts.get("base", "base")
            with patched_iter(CoolerCoarsener, fault, NB_COARSE, seen):
                cooler.coarsen_cooler(src + "::/" + base, dest.uri, 2, chunksize=opts.get("chunksize", 9), mode=dest.mode, **extra)
        else:
            raise AssertionError(prod)
    except Exception as e:  # noqa: BLE001
        return e
    return None


def expected_content(prod, symm, opts):
    """pixel table a successful run must produce (control runs only)"""
    if prod in ("ordered", "unordered-input", "unordered-merge"):
        p = valid_pixels(symm)
        return NB, {(int(a), int(b)): int(c) for a, b, c in zip(p.bin1_id, p.bin2_id, p["count"])}
    allp = valid_pixels(True)
    if prod == "merge":
        tot = Counter()
        for r in (0, 1):
            q = allp[(allp.bin1_id + allp.bin2_id) % 3 != r]
            for a, b, c in zip(q.bin1_id, q.bin2_id, q["count"]):
                tot[(int(a), int(b))] += int(c)
        return NB, dict(tot)
    tot = Counter()
    cmap = [0, 0, 1, 1, 2, 3, 3, 4]          # bin -> coarse bin, per chromosome (5 -> 3, 3 -> 2)
    for a, b, c in zip(allp.bin1_id, allp.bin2_id, allp["count"]):
        tot[(cmap[a], cmap[b])] += int(c)
    return NB_COARSE, dict(tot)


# ------------------------------------------------------------------ the contracts after one run
def evaluate(B, templates, prod, dname, fault, symm=True, form="frame", m=3, opts=None, api_neigh=True):
    dest = Dest(B, templates, dname)
    seen = {"chunks": 0, "injected": False}
    case = dict(producer=prod, destination=dname, group=dest.group, mode=dest.mode, fault=fault, symmetric_upper=symm, chunk_form=form,
                chunks=m, options=opts or {})
    kind = (fault or {}).get("kind", "none")
    try:
        snap0, api0, list0 = before(templates, dest)
        exc = run_producer(prod, dest, fault, seen, templates, symm, form, m, opts)
        injected = fault is not None and (kind in ("raise", "natural") or seen["injected"])
        if kind == "natural" and exc is None:
            if "lower-triangle" in fault["what"]:
                B.fail("invalid-pixel-rejected", case, "creation succeeded", "BadInputError", f"invalid-pixel-rejected:natural-tril:{prod}")
            else:
                # nothing went wrong in this configuration: it must then be a cooler, and the neighbours untouched
                B.check("control.valid-stream-creates-cooler", is_cooler(dest.uri), case, "not a cooler", "cooler", nontrivial=False,
                        signature=f"control.valid-stream-creates-cooler:{prod}")
                snap1 = snapshot(dest.path, dest.group)
                B.check("neighbours-bytes-unchanged", same_neighbours(snap0, snap1, dest.group), case, _snapdiff(snap0, snap1), "identical", nontrivial=False,
                        signature=f"neighbours-bytes-unchanged:after-success:{dname}")
            return seen
        if fault is not None and not injected and exc is None:
            # the producer yielded fewer chunks than assumed: nothing was injected (enumeration bug, not a library matter)
            B.fail("fault-was-injected", case, f"producer yielded {seen['chunks']} chunks", "fault reached", "runner:fault-not-injected")
            return seen
        if fault is None and exc is None:
            # ---- control: the same scenario without a fault really creates the cooler and keeps the neighbours
            nb, content = expected_content(prod, symm, opts)
            ok = is_cooler(dest.uri) and dest.group in list_coolers(dest.path)
            if ok:
                c = cooler.Cooler(dest.uri)
                px = c.pixels()[:]
                got = {(int(a), int(b)): int(v) for a, b, v in zip(px.bin1_id, px.bin2_id, px["count"])}
                ok = got == content and c.info["nbins"] == nb
                o = opts or {}
                if o.get("metadata") is not None:
                    ok = ok and c.info.get("metadata") == o["metadata"]
                if o.get("assembly") is not None and prod != "merge":
                    ok = ok and c.info.get("genome-assembly") == o["assembly"]
            B.check("control.valid-stream-creates-cooler", ok, case, "not created / wrong content", "cooler with the expected pixels",
                    signature=f"control.valid-stream-creates-cooler:{prod}")
            snap1 = snapshot(dest.path, dest.group)
            B.check("neighbours-bytes-unchanged", same_neighbours(snap0, snap1, dest.group), case, _snapdiff(snap0, snap1), "identical", nontrivial=bool(snap0),
                    signature=f"neighbours-bytes-unchanged:after-success:{dname}")
            return seen
        # ---- (a) rejection
        if kind in ("oob", "tril", "dup", "badvalue") and not seen["injected"]:
            # the producer failed on the VALID prefix, before the fault was reached: not what this case is about, but
            # it must not pass silently; the post-state contracts below still apply to it
            B.fail("fault-was-injected", case, f"{type(exc).__name__}: {str(exc)[:200]} after {seen['chunks']} chunks", "fault reached",
                   f"runner:producer-failed-before-fault:{prod}:{type(exc).__name__}")
        elif kind in ("oob", "tril", "dup"):
            if exc is None:
                B.fail("invalid-pixel-rejected", case, "creation succeeded", "BadInputError", f"invalid-pixel-rejected:{kind}:{prod}")
                return seen
            B.check("invalid-pixel-rejected", isinstance(exc, BadInputError), case, f"{type(exc).__name__}: {str(exc)[:200]}", "BadInputError",
                    signature=f"invalid-pixel-rejected:{kind}:{prod}:{type(exc).__name__}")
        elif kind == "badvalue":
            B.check("write-failure-propagates", exc is not None, case, "creation succeeded", "an error from the write step",
                    signature=f"write-failure-propagates:{prod}")
            if exc is None:
                return seen
        elif kind == "raise":
            B.check("iterator-failure-propagates", isinstance(exc, Injected), case, f"{type(exc).__name__}: {str(exc)[:200]}" if exc else "succeeded",
                    "the iterator's exception", signature=f"iterator-failure-propagates:{prod}")
            if exc is None:
                return seen
        elif kind == "natural" and "lower-triangle" in fault["what"]:
            B.check("invalid-pixel-rejected", isinstance(exc, BadInputError), case, f"{type(exc).__name__}: {str(exc)[:200]}", "BadInputError",
                    signature=f"invalid-pixel-rejected:natural-tril:{prod}:{type(exc).__name__}")
        elif exc is None:
            return seen
        # ---- (b) the destination is not a cooler
        try:
            r = is_cooler(dest.uri)
            B.check("dest-not-recognised.is_cooler", r is False, case, r, False, signature=f"dest-not-recognised.is_cooler:{prod}")
        except Exception as e:  # noqa: BLE001
            absent = not _group_exists(dest.path, dest.group)
            B.fail("dest-not-recognised.is_cooler", case, f"is_cooler raised {type(e).__name__}: {str(e)[:160]}", False,
                   f"dest-not-recognised.is_cooler:raises-{type(e).__name__}" + (":group-absent" if absent else ""))
        if os.path.exists(dest.path) and h5py.is_hdf5(dest.path):
            try:
                ls = list_coolers(dest.path)
                B.check("dest-not-listed.list_coolers", dest.group not in ls, case, ls, f"without {dest.group}",
                        signature=f"dest-not-listed.list_coolers:{prod}")
                B.check("other-collections-still-listed", ls == list0, case, ls, list0, nontrivial=bool(list0),
                        signature=f"other-collections-still-listed:{dname}")
            except Exception as e:  # noqa: BLE001
                B.fail("dest-not-listed.list_coolers", case, f"{type(e).__name__}: {e}", "a listing", "dest-not-listed.list_coolers:exception")
        else:
            B.ok("dest-not-listed.list_coolers", case, nontrivial=False)      # no file at all: nothing can be listed
        fmt = _format_attr(dest.path, dest.group)
        B.check("dest-has-no-format-attribute.h5py", fmt is None, case, fmt, None, signature=f"dest-has-no-format-attribute.h5py:{prod}")
        try:
            c = cooler.Cooler(dest.uri)
            info = dict(c.info)
            B.check("Cooler-of-dest-not-a-finished-cooler", "format" not in info and "nnz" not in info, case, info, "no format / nnz attributes",
                    signature=f"Cooler-of-dest-not-a-finished-cooler:{prod}")
        except Exception:  # noqa: BLE001
            B.ok("Cooler-of-dest-not-a-finished-cooler", case)
        # ---- (c) the neighbours
        snap1 = snapshot(dest.path, dest.group)
        B.check("neighbours-bytes-unchanged", same_neighbours(snap0, snap1, dest.group), case, _snapdiff(snap0, snap1), "identical", nontrivial=bool(snap0),
                signature=f"neighbours-bytes-unchanged:{dname}")
        if api_neigh and dest.template:
            try:
                api1 = api_view(dest.path, dest.group)
                B.check("neighbours-read-back-unchanged.api", api1 == api0, case, sorted(api1), sorted(api0), signature=f"neighbours-read-back-unchanged.api:{dname}")
            except Exception as e:  # noqa: BLE001
                B.fail("neighbours-read-back-unchanged.api", case, f"{type(e).__name__}: {e}", "readable", f"neighbours-read-back-unchanged.api:{dname}")
        return seen
    finally:
        dest.cleanup()


def _group_exists(path, group):
    if not os.path.exists(path) or not h5py.is_hdf5(path):
        return False
    with h5py.File(path, "r") as f:
        return group in f


def _format_attr(path, group):
    if not _group_exists(path, group):
        return None
    with h5py.File(path, "r") as f:
        v = f[group].attrs.get("format", None)
        return None if v is None else str(v)


def same_neighbours(a, b, group):
    """snapshots equal, except that ancestors of the destination group may have been newly created"""
    anc = set()
    parts = group.strip("/").split("/")
    for k in range(len(parts)):
        anc.add("/" + "/".join(parts[:k]))
    b2 = {k: v for k, v in b.items() if not (k in anc and k not in a)}
    return a == b2


def _snapdiff(a, b):
    d = []
    for k in sorted(set(a) | set(b)):
        if a.get(k) != b.get(k):
            d.append((k, "missing" if k not in b else "new" if k not in a else "changed"))
    return d[:10]


# ------------------------------------------------------------------ (a) the validator, exhaustively
def validator_exhaustive(B, n, maxlen):
    v = validate_pixels(n, True, True, True, False)
    ids = list(range(-1, n + 1))
    recs = [(a, b) for a in ids for b in ids]
    for L in range(0, maxlen + 1):
        for chunk in itertools.product(recs, repeat=L):
            valid = all(0 <= a < n and 0 <= b < n and a <= b for a, b in chunk) and len(set(chunk)) == len(chunk)
            why = "valid" if valid else ("out-of-range" if any(not (0 <= a < n and 0 <= b < n) for a, b in chunk)
                                         else "lower-triangle" if any(a > b for a, b in chunk) else "duplicate")
            for form in ("frame", "dict"):
                if form == "dict" and L == maxlen and maxlen > 2 and not B.thorough:
                    continue
                df = pd.DataFrame({"bin1_id": np.array([c[0] for c in chunk], dtype=np.int64),
                                   "bin2_id": np.array([c[1] for c in chunk], dtype=np.int64), "count": np.ones(L, dtype=np.int32)})
                arg = as_form(df, form)
                case = dict(n_bins=n, chunk=[list(c) for c in chunk], form=form)
                try:
                    out = v(arg)
                    same = [tuple(x) for x in zip(np.asarray(out["bin1_id"]).tolist(), np.asarray(out["bin2_id"]).tolist())] == list(chunk)
                    B.check("validator-accepts-iff-valid", valid and same, case, "accepted" if same else "accepted and altered", why,
                            nontrivial=L > 0, signature=f"validator-accepts-iff-valid:{why}-accepted")
                except BadInputError:
                    B.check("validator-accepts-iff-valid", not valid, case, "BadInputError", why, signature="validator-accepts-iff-valid:valid-rejected")
                except Exception as e:  # noqa: BLE001
                    B.fail("validator-accepts-iff-valid", case, f"{type(e).__name__}: {e}", why, "validator-accepts-iff-valid:exception")


# ------------------------------------------------------------------ replay
def replay(B):
    rec = json.load(open(B.replay_file))
    case = rec["case"]
    print("replaying", rec["contract"], json.dumps(case)[:500])
    if "producer" in case:
        limit_failures(B, 10 ** 6)
        templates = build_templates(B)
        evaluate(B, templates, case["producer"], case["destination"], case["fault"], case["symmetric_upper"], case["chunk_form"],
                 case["chunks"], case["options"])
        for v in B.violations:
            print("VIOLATION", v["contract"], v["signature"], open(v["replay"]).read()[:1200])
        print("violations reproduced:", len(B.violations))
    else:
        print("recorded observed:", rec["observed"], "expected:", rec["expected"])
    shutil.rmtree(B.tmp, ignore_errors=True)
    return 0


# ------------------------------------------------------------------ main
def main():
    B = Bounded("C13", "bounded/C13.py")
    quiet_logging()
    if B.replay_file:
        return replay(B)
    limit_failures(B)
    templates = build_templates(B)
    m = 4 if B.thorough else 3
    B.bound = (f"validator: all chunks of <= {3 if B.thorough else 2} records over ids -1..n (n=2{',3' if B.thorough else ''}), frame and dict form; "
               f"creation: streams of m={m} chunks{' (also 1, 2, 5; 400 seeded random faults on m in 1..6)' if B.thorough else ''} over 8 bins; fault at every chunk index 0..m: iterator raises / out-of-range id "
               "(bin2=n, bin1=n, bin1=-1, bin2=n+3) / lower-triangle pixel / in-chunk duplicate / unstorable value (write step fails) at first|middle|last row; "
               "destinations: new file, new group in multi-collection file, existing plain group, root of a file holding collections, "
               "sibling of a nested collection, existing plain group next to a nested collection, new file non-root group (thorough); producers: ordered, unordered (input pass, merge pass), "
               "merge_coolers, coarsen_cooler (+ sources holding a lower-triangle pixel, tiny merge buffers); the matrix repeated WITH metadata= / "
               f"assembly= (entry points create_cooler and create/create_from_unordered) for {'all producers x destinations' if B.thorough else 'ordered, unordered x new file, new group, re-created existing group (one fault per chunk + iterator failure at every index)'}; "
               + ("full product" if B.thorough else "ordered x multi-collection destination: every kind x chunk x row; other producers there: every kind x "
                  "chunk (row rotating); other destinations: every chunk x row with the kind rotating (ordered: all; others: new file, root of file) "
                  "or the iterator failure at every index"))
    B.rule = ("case = (producer, destination, fault kind/chunk/row/variant, storage mode, chunk form, options); non-trivial when a creation "
              "was actually stopped (or, for the validator, the chunk is non-empty); distinct by case")
    # (a) validator
    validator_exhaustive(B, 2, 3 if B.thorough else 2)
    if B.thorough:
        validator_exhaustive(B, 3, 2)
    else:
        validator_exhaustive(B, 1, 3)
    # (b)-(d) fault injection
    dests = list(DESTS) if B.thorough else QUICK_DESTS
    count = [0]

    spent = Counter()

    jobs = []

    def go(prod, dname, fault, now=False, **kw):
        """queue one creation (or run it at once: the control runs, whose stream lengths the enumeration needs)"""
        count[0] += 1
        kw.setdefault("form", "dict" if count[0] % 2 else "frame")
        kw.setdefault("api_neigh", B.thorough or count[0] % 6 == 0)
        if not now:
            jobs.append((prod, dname, fault, kw))
            return None
        t = time.time()
        try:
            return evaluate(B, templates, prod, dname, fault, **kw)
        finally:
            spent[prod] += time.time() - t
            spent[prod + "#"] += 1

    # how many chunks does each producer's stream have?  (control runs; they are contracts of their own)
    streams = {}
    for prod, opts in (("ordered", {}), ("unordered-input", {}), ("unordered-merge", {"mergebuf": 12}), ("merge", {"mergebuf": 12}),
                       ("coarsen", {"chunksize": 9})):
        for dname in dests:
            seen = go(prod, dname, None, now=True, m=m, opts=opts)
        streams[prod] = (seen["chunks"], opts)
    for prod, (mm, opts) in streams.items():
        for dname in dests:
            if B.thorough or (dname == "new-group-in-multi" and prod == "ordered"):
                fs = faults(mm, True, True, salt=len(dname))            # every kind x chunk x row position
            elif dname == "new-group-in-multi":
                fs = faults(mm, True, "kinds", salt=len(prod))          # every kind x chunk (row position is the validator's
                #                                                         business and does not depend on the producer)
            elif prod == "ordered" or dname in ("new-file", "root-of-file-with-collections"):
                fs = faults(mm, True, False, salt=len(dname))           # every chunk, kinds/positions rotating
            else:
                fs = faults(mm, True, False, salt=len(dname))[:mm + 1]  # the iterator failing before every chunk
            for fault in fs:
                go(prod, dname, fault, m=m, opts=opts)
    # square storage: no triangle rule; bounds and duplicates still apply
    for prod in ("ordered", "unordered-input"):
        go(prod, "new-group-in-multi", None, symm=False, m=m)
        for dname in dests if B.thorough else ("new-group-in-multi",):
            for fault in faults(m, False, B.thorough or prod == "ordered", salt=1):
                go(prod, dname, fault, symm=False, m=m)
    # creations WITH user metadata / an assembly name: the same matrix (iterator failing before chunk 0..m, a rejected record or failed
    # write at every chunk); what the user passes for the info attributes must not make a stopped creation look finished
    METAS = {"metadata": {"metadata": {"sample": "x1", "nested": {"a": [1, 2, {"b": None}]}, "format": "HDF5::Cooler"}},
             "assembly": {"assembly": "hg19-test"},
             "both": {"metadata": {"k": "v"}, "assembly": "mm10"}}
    meta_dests = dests if B.thorough else ("new-file", "new-group-in-multi", "existing-plain-group")
    meta_prods = list(streams) if B.thorough else ("ordered", "unordered-input", "unordered-merge")
    for prod in meta_prods:
        mm, opts0 = streams[prod]
        for mi, (mname, mopts) in enumerate(METAS.items()):
            if mname == "both" and not B.thorough:
                continue
            for di, dname in enumerate(meta_dests):
                o = dict(opts0, **mopts)
                if prod in ("ordered", "unordered-input") and (mi + di) % 2:
                    o["entry"] = "create"
                if di == 0 or B.thorough:
                    go(prod, dname, None, m=m, opts=o)      # control: it works, and the info comes back
                for fault in faults(mm, True, True if B.thorough else "perchunk", salt=mi + di):
                    go(prod, dname, fault, m=m, opts=o)
    # natural faults: sources that hold a lower-triangle pixel; tiny merge buffers; recursive merge
    for dname in dests if B.thorough else ("new-group-in-multi", "root-of-file-with-collections"):
        for bad in ("tril-early", "tril-mid", "tril-late"):
            for mb in (12,) if not B.thorough else (5, 12, 30, 10 ** 6):
                go("merge", dname, dict(kind="natural", what="source with lower-triangle pixel", source=bad), opts={"inputs": ["s1", bad], "mergebuf": mb})
            for cs in (9,) if not B.thorough else (3, 9, 20, 10 ** 6):
                go("coarsen", dname, dict(kind="natural", what="base with lower-triangle pixel", source=bad), opts={"base": bad, "chunksize": cs})
        for mb in (1, 2, 3) if B.thorough else (1,):
            go("merge", dname, dict(kind="natural", what="tiny mergebuf"), opts={"mergebuf": mb})
            go("unordered-merge", dname, dict(kind="natural", what="tiny mergebuf"), m=m, opts={"mergebuf": mb})
            # sparse inputs: with mergebuf 1..2 the merger of the pinned tree failed by itself after some chunks were written
            go("merge", dname, dict(kind="natural", what="tiny mergebuf, sparse inputs"), opts={"mergebuf": mb, "inputs": ["sp1", "sp2"]})
            go("unordered-merge", dname, dict(kind="natural", what="tiny mergebuf, sparse inputs"), m=2, opts={"mergebuf": mb, "sparse": True})
        # recursive merge with max_merge < number of chunks (on this tree it fails before the destination is touched)
        go("unordered-input", dname, dict(kind="natural", what="max_merge smaller than the number of chunks"), m=3, opts={"max_merge": 2})
    if B.thorough:
        # other stream lengths, and the two-pass (recursive) merge of the unordered ingest
        for mm in (1, 2, 5):
            for prod in ("ordered", "unordered-input"):
                for dname in ("new-group-in-multi", "new-file"):
                    go(prod, dname, None, m=mm)
                    for fault in faults(mm, True, True):
                        go(prod, dname, fault, m=mm)
        for dname in ("new-group-in-multi", "new-file"):
            go("unordered-input", dname, None, m=4, opts={"max_merge": 2})
            for fault in faults(4, True, True):
                go("unordered-input", dname, fault, m=4, opts={"max_merge": 2})
        # seeded random faults on random stream lengths
        B.exhaustive = False
        for _ in range(400):
            mm = B.rng.randint(1, 6)
            prod = B.rng.choice(["ordered", "unordered-input"])
            dname = B.rng.choice(dests)
            symm = B.rng.random() < 0.7
            fault = B.rng.choice(faults(mm, symm, True, salt=B.rng.randrange(8)))
            go(prod, dname, fault, symm=symm, m=mm)
    run_jobs(B, templates, jobs, workers=8 if B.thorough else 1)
    for v in B.violations:
        v["count"] = B.sig_seen[v["signature"]]
    if os.environ.get("VERIF_DEBUG"):
        print({k: round(v, 1) for k, v in spent.items()}, file=sys.stderr)
    return B.finish()


_G = {}


def _run_unit(k):
    B, templates, jobs, U = _G["B"], _G["templates"], _G["jobs"], _G["units"]
    B.evaluations, B.nontrivial, B.samples, B.violations, B.contracts = 0, set(), [], [], {}
    B.sig_seen.clear()
    B.tmp = os.path.join(_G["tmp"], f"u{k}")
    os.makedirs(B.tmp, exist_ok=True)
    for prod, dname, fault, kw in jobs[k::U]:
        try:
            evaluate(B, templates, prod, dname, fault, **kw)
        except Exception as e:  # noqa: BLE001  (a crash of the runner itself must not go unnoticed)
            B.fail("runner", dict(producer=prod, destination=dname, fault=fault), f"{type(e).__name__}: {e}\n{traceback.format_exc(limit=6)}",
                   "job completes", "runner:crash")
    shutil.rmtree(B.tmp, ignore_errors=True)
    return dict(evaluations=B.evaluations, nontrivial=B.nontrivial, samples=B.samples, violations=B.violations,
                contracts=B.contracts, seen=dict(B.sig_seen))


def run_jobs(B, templates, jobs, workers):
    if workers <= 1:
        for prod, dname, fault, kw in jobs:
            evaluate(B, templates, prod, dname, fault, **kw)
        return
    import multiprocessing as mp
    U = workers * 4
    _G.update(B=B, templates=templates, jobs=jobs, units=U, tmp=B.tmp)
    with mp.get_context("fork").Pool(workers) as pool:
        results = pool.map(_run_unit, range(U), chunksize=1)
    for r in results:                      # merged in unit order: deterministic
        B.evaluations += r["evaluations"]
        B.nontrivial |= r["nontrivial"]
        B.samples += r["samples"][:1]
        for c, x in r["contracts"].items():
            B.contracts[c] = B.contracts.get(c, 0) + x
        for sgn, x in r["seen"].items():
            B.sig_seen[sgn] += x
        for v in r["violations"]:
            if v["signature"] not in {w["signature"] for w in B.violations}:
                B.violations.append(v)
            elif os.path.exists(v["replay"]) and v["replay"] not in {w["replay"] for w in B.violations}:
                os.remove(v["replay"])      # one recorded case per signature: drop the other units' duplicates


if __name__ == "__main__":
    sys.exit(main())
