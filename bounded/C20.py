"""C20 bounded stand-in: generated bin tables tile the genome; a reported bin size is always true.

Runs the REAL util.binnify / util.get_binsize / util.get_chromsizes / cli._util.parse_bins / `cooler makebins`
against a plain-python recomputation:

 tiling(sizes, b)  = per chromosome in the given order the rows (c, k*b, min((k+1)*b, len)), k = 0 .. ceil(len/b)-1
 fixed(T, b)       = every bin of T is [k*b, min((k+1)*b, len_c)) with k its rank within its chromosome

 binnify   : binnify(sizes, b) == tiling(sizes, b) (rows, order, column names, 0..n-1 index, integer columns), chrom is a
             categorical whose categories are the given names in the given order; on that table get_binsize gives back b
             whenever some chromosome is longer than b (the size is then determined), get_chromsizes gives back sizes.
 inference : for every valid bin table T: get_binsize(T) is None or an integer b with fixed(T, b);
             get_chromsizes(T) = the end of the last bin of every chromosome, in table order.
 parse_bins: "<chromsizes file>:<b>" -> (sizes in file order, tiling); "<bins BED file>" -> (last ends in file order, the
             rows); ValueError for a missing file / non-integer size / neither form.
 makebins  : the CLI writes tiling(sizes, b) as BED (stdout or --out, optional header, optional 0/1-based relative ids).

Signatures: contract name (+ ":last-bin-longer" for the input kind "all bins but a chromosome's last have the reported
width and start at multiples of it, and some last bin is LONGER than it", the class known on the pinned tree;
+ ":exception" for unexpected exceptions).  No check is weakened for a kind.  `--replay <file>` re-evaluates a recorded case.
"""
import sys, os
sys.path.insert(0, os.path.dirname(os.path.dirname(os.path.abspath(__file__))))
import hashlib
import itertools
import json
import shutil
import time
import warnings
warnings.filterwarnings("ignore")
import numpy as np
import pandas as pd
from click.testing import CliRunner
import cooler
from cooler import util
from cooler.cli import cli
from cooler.cli._util import parse_bins
from bounded.common import *

NAMES = ["chr2", "chr10", "chr1"]  # table order differs from the lexicographic and from the natural order


class CappedBounded(Bounded):
    """Bounded + (1) at most `per_sig` recorded violations per signature, so that one (known) failure class cannot use
    up the violation slots and hide a different one (every failure is still counted, see failures_by_signature);
    (2) compact digests for the distinct-case count; (3) --replay support (see replay())."""

    def __init__(self, *a, **k):
        super().__init__(*a, **k)
        self.max_violations = 60
        self.per_sig = 2
        self.sig_count = {}
        self.fail_keys = set()
        self.replayed = None

    @staticmethod
    def key(contract, case):
        return json.dumps([contract, case], sort_keys=True, default=str)

    def ok(self, contract, case, nontrivial=True, sample=False):
        # as Bounded.ok, but keeps 8-byte digests (the thorough tier records millions of distinct cases)
        self.evaluations += 1
        self.contracts[contract] = self.contracts.get(contract, 0) + 1
        if nontrivial:
            self.nontrivial.add(int.from_bytes(hashlib.md5(repr((contract, case)).encode()).digest()[:8], "big"))
        if sample or (len(self.samples) < 6 and self.contracts[contract] in (1, 50)):
            self.samples.append({"contract": contract, "case": json.dumps(case, default=str)[:400]})

    def fail(self, contract, case, observed, expected, signature=None):
        sig = signature or contract
        self.sig_count[sig] = self.sig_count.get(sig, 0) + 1
        if self.replay_file:  # replaying: nothing is written, the outcome of the replayed case is reported by finish()
            self.evaluations += 1
            self.contracts[contract] = self.contracts.get(contract, 0) + 1
            self.fail_keys.add(self.key(contract, case))
            if self.replayed and self.key(contract, case) == self.replayed["key"]:
                self.replayed.update(observed=json.dumps(observed, default=str)[:1500], signature=sig)
            return
        if self.sig_count[sig] > self.per_sig:
            self.evaluations += 1
            self.contracts[contract] = self.contracts.get(contract, 0) + 1
            return
        super().fail(contract, case, observed, expected, sig)

    def finish(self):
        shutil.rmtree(self.tmp, ignore_errors=True)
        out = {"property": self.pid, "tier": self.tier, "seed": self.seed, "bound": self.bound, "rule": self.rule,
               "evaluations": self.evaluations, "distinct_nontrivial": len(self.nontrivial),
               "exhaustive": self.exhaustive, "samples": self.samples[:8], "violations": self.violations,
               "failures_by_signature": self.sig_count,
               "contracts_evaluated": self.contracts, "wall_s": round(time.time() - self.t0, 2)}
        if self.replayed is not None:
            r = self.replayed
            out["replay"] = {"file": self.replay_file, "contract": r["contract"], "case": r["case"],
                             "reproduced": r["key"] in self.fail_keys, "observed_now": r.get("observed"),
                             "signature_now": r.get("signature"), "expected": r.get("expected")}
            print("REPLAY %s: %s  case=%s\n  observed now: %s\n  expected: %s" % (
                "REPRODUCED (contract violated)" if out["replay"]["reproduced"] else "not reproduced (contract holds on this case now)",
                r["contract"], json.dumps(r["case"], default=str)[:600], r.get("observed"), r.get("expected")))
        print(json.dumps(out, default=str))
        return 0

    def load_replay(self):
        rec = json.load(open(self.replay_file))
        self.replayed = {"contract": rec["contract"], "case": rec["case"], "key": self.key(rec["contract"], rec["case"]),
                         "expected": rec.get("expected")}
        return rec["contract"], rec["case"]


# ------------------------------------------------------------------ independent model
def tiling(sizes, b):
    rows = []
    for c, L in sizes:
        k = 0
        while k * b < L:
            rows.append((c, k * b, min((k + 1) * b, L)))
            k += 1
    return rows


def true_fixed(chroms, b):
    for _, edges in chroms:
        L = edges[-1]
        for k, (s, e) in enumerate(zip(edges[:-1], edges[1:])):
            if s != k * b or e != min((k + 1) * b, L):
                return False
    return True


def longer_last_only(chroms, b):
    """the input kind of the known class: non-last bins are exactly the b-grid, some last bin is longer than b"""
    longer = False
    for _, edges in chroms:
        for k, (s, e) in enumerate(zip(edges[:-2], edges[1:-1])):
            if s != k * b or e != (k + 1) * b:
                return False
        if edges[-2] != (len(edges) - 2) * b:
            return False
        if edges[-1] - edges[-2] > b:
            longer = True
    return longer


def rows_of(chroms):
    return [(c, s, e) for c, edges in chroms for s, e in zip(edges[:-1], edges[1:])]


def obs_rows(df):
    return list(zip(df["chrom"].astype(str).tolist(), [int(x) for x in df["start"]], [int(x) for x in df["end"]]))


def compositions(L, max_bins):
    for k in range(min(L, max_bins)):
        for cut in itertools.combinations(range(1, L), k):
            yield [0, *cut, L]


def layouts(maxlen, max_bins=4):
    return [e for L in range(1, maxlen + 1) for e in compositions(L, max_bins)]


def is_int(x):
    return isinstance(x, (int, np.integer)) and not isinstance(x, bool)


# ------------------------------------------------------------------ binnify
def check_binnify(B, sizes, b, family, dtype="int64", btype="int", infer=True):
    names = [c for c, _ in sizes]
    cs = pd.Series([L for _, L in sizes], index=names, dtype=dtype)
    bb = np.int64(b) if btype == "np.int64" else b
    case = dict(layer="binnify", family=family, chromsizes=[[c, L] for c, L in sizes], binsize=b, lengths_dtype=dtype, binsize_type=btype)
    got = B.guarded("binnify==tiling", case, lambda: util.binnify(cs, bb))
    if got is None:
        return
    exp = tiling(sizes, b)
    nt = len(exp) > 1
    obs = B.guarded("binnify==tiling", case, lambda: obs_rows(got))
    if obs is None:
        return
    shape_ok = (list(got.columns) == ["chrom", "start", "end"] and got.index.tolist() == list(range(len(exp)))
                and pd.api.types.is_integer_dtype(got["start"]) and pd.api.types.is_integer_dtype(got["end"]))
    B.check("binnify==tiling", obs == exp and shape_ok, case,
            dict(rows=obs, columns=list(got.columns), dtypes=[str(x) for x in got.dtypes]), exp, nt)
    cat = got["chrom"].dtype
    B.check("binnify-chrom-categories-in-given-order",
            isinstance(cat, pd.CategoricalDtype) and list(cat.categories) == names and bool(cat.ordered), case,
            str(cat), names, len(names) > 1)
    if not infer:
        return
    try:
        r = util.get_binsize(got)
        r_obs = r
    except Exception as ex:
        r, r_obs = "raised", f"{type(ex).__name__}: {ex}"
    if any(L > b for _, L in sizes):
        B.check("get_binsize-of-binnify==b", is_int(r) and int(r) == b, case, r_obs, b, nt)
    else:
        # one bin per chromosome: b is not determined by the table; None or any true size is correct
        chroms = [(c, [0, L]) for c, L in sizes]
        B.check("get_binsize-reported-size-is-true", r is None or (is_int(r) and r > 0 and true_fixed(chroms, int(r))), case,
                r_obs, "None or a true size", False)
    got2 = B.guarded("get_chromsizes-of-binnify==sizes", case, lambda: util.get_chromsizes(got))
    if got2 is not None:
        B.check("get_chromsizes-of-binnify==sizes",
                [str(x) for x in got2.index] == names and [int(x) for x in got2.values] == [L for _, L in sizes], case,
                got2.to_dict(), dict(sizes), nt)


# ------------------------------------------------------------------ inference on arbitrary valid tables
def make_frame(chroms, form):
    rows = rows_of(chroms)
    df = pd.DataFrame(rows, columns=["chrom", "start", "end"])
    if form == "categorical":
        df["chrom"] = pd.Categorical(df["chrom"], categories=[c for c, _ in chroms], ordered=True)
    elif form == "categorical+unused":
        df["chrom"] = pd.Categorical(df["chrom"], categories=["chr0"] + [c for c, _ in chroms] + ["chrZ"], ordered=True)
    elif form == "int32-coords":
        df = df.astype({"start": np.int32, "end": np.int32})
    elif form == "extra-columns+offset-index":
        df["weight"] = 1.0
        df.index = df.index + 100
    return df


def check_inference(B, chroms, family, form="object"):
    case = dict(layer="inference", family=family, bins=[[c, e] for c, e in chroms], frame=form)
    df = make_frame(chroms, form)
    try:
        r = util.get_binsize(df)
        r_obs = r
        ok_type = r is None or (is_int(r) and r > 0)
    except Exception as ex:
        r, r_obs, ok_type = None, f"{type(ex).__name__}: {ex}", False
    true = ok_type and (r is None or true_fixed(chroms, int(r)))
    kind = ":last-bin-longer" if (ok_type and r is not None and not true and longer_last_only(chroms, int(r))) else \
        ("" if ok_type or r is not None else ":exception")
    B.check("get_binsize-reported-size-is-true", true, case, r_obs,
            "None, or an integer b such that every bin is [k*b, min((k+1)*b, len))", r is not None,
            "get_binsize-reported-size-is-true" + kind)
    got = B.guarded("get_chromsizes==last-bin-ends-in-table-order", case, lambda: util.get_chromsizes(df))
    if got is not None:
        B.check("get_chromsizes==last-bin-ends-in-table-order",
                isinstance(got, pd.Series) and [str(x) for x in got.index] == [c for c, _ in chroms]
                and [int(x) for x in got.values] == [e[-1] for _, e in chroms], case,
                got.to_dict() if isinstance(got, pd.Series) else repr(got), {c: e[-1] for c, e in chroms},
                len(chroms) > 1 or len(chroms[0][1]) > 2)


def structured_tables(big):
    """uniform tables with a shorter / equal / LONGER last bin, one-bin chromosomes next to them, differing widths
    between chromosomes; edges <= 12, <= 4 bins per chromosome, <= 3 chromosomes"""
    seen = set()

    def emit(fam, *edge_lists):
        key = (tuple(map(tuple, edge_lists)))
        if key in seen:
            return None
        seen.add(key)
        return fam, [(NAMES[i], list(e)) for i, e in enumerate(edge_lists)]

    out = []
    uni = []
    for b in range(1, 7):
        for k in range(1, 4):
            for w in range(1, 12 - k * b + 1):
                uni.append((b, k, w, list(range(0, k * b + 1, b)) + [k * b + w]))
    for b, k, w, e in uni:
        fam = "uniform-shorter-last" if w < b else ("uniform-exact" if w == b else "uniform-longer-last")
        out.append(emit(fam, e))
        for m in sorted({max(1, b - 1), b, b + 1, 12} if (big or w >= b - 1) else {b + 1}):
            out.append(emit(fam + "+one-bin-chrom", e, [0, m]))
            out.append(emit(fam + "+one-bin-chrom", [0, m], e))
        if k <= 2 and w <= b + 1:
            for b2, k2, w2, e2 in uni:
                if k2 == 1 and (b2 in (b, b + 1)) and w2 in (1, b2, b2 + 1) and b2 + w2 <= 12:
                    out.append(emit("two-uniform-chroms", e, e2))
                    out.append(emit("three-chroms", e, [0, min(12, b + 2)], e2))
    for Ls in itertools.chain(itertools.product([1, 5, 7, 12], repeat=2), itertools.product([1, 7, 12], repeat=3)):
        out.append(emit("one-bin-per-chrom", *[[0, L] for L in Ls]))
    return [x for x in out if x is not None]


def random_chroms(r, maxedge=12, maxbins=4):
    chroms = []
    for i in range(r.randint(1, 3)):
        L = r.randint(1, maxedge)
        mode = r.random()
        if mode < 0.5:
            b = r.randint(1, 6)
            k = r.randint(0, maxbins - 1)
            while k * b >= maxedge:
                k -= 1
            edges = list(range(0, k * b + 1, b)) + [r.randint(k * b + 1, maxedge)]
        else:
            nb = r.randint(1, min(maxbins, L))
            edges = [0] + sorted(r.sample(range(1, L), nb - 1)) + [L]
        chroms.append((NAMES[i], edges))
    return chroms


# ------------------------------------------------------------------ parse_bins / makebins
def write_chromsizes(path, sizes):
    with open(path, "w") as f:
        for c, L in sizes:
            f.write(f"{c}\t{L}\n")


def check_parse_bins(B, sizes, b, idx):
    p = B.path(f"sizes-{idx}.txt")
    write_chromsizes(p, sizes)
    case = dict(layer="parse_bins", form="chromsizes:binsize", chromsizes=[[c, L] for c, L in sizes], binsize=b)
    got = B.guarded("parse_bins-sizes-spec==sizes+tiling", case, lambda: parse_bins(f"{p}:{b}"))
    if got is not None:
        cs, bins = got
        exp = tiling(sizes, b)
        ok = ([str(x) for x in cs.index] == [c for c, _ in sizes] and [int(x) for x in cs.values] == [L for _, L in sizes]
              and obs_rows(bins) == exp)
        B.check("parse_bins-sizes-spec==sizes+tiling", ok, case, dict(chromsizes=cs.to_dict(), bins=obs_rows(bins)),
                dict(chromsizes=dict(sizes), bins=exp), len(exp) > 1)
    os.remove(p)


def check_parse_bins_bed(B, chroms, idx):
    p = B.path(f"bins-{idx}.bed")
    rows = rows_of(chroms)
    with open(p, "w") as f:
        for c, s, e in rows:
            f.write(f"{c}\t{s}\t{e}\n")
    case = dict(layer="parse_bins", form="bins BED file", bins=[[c, e] for c, e in chroms])
    got = B.guarded("parse_bins-bed-file==last-ends+rows", case, lambda: parse_bins(p))
    if got is not None:
        cs, bins = got
        ok = ([str(x) for x in cs.index] == [c for c, _ in chroms] and [int(x) for x in cs.values] == [e[-1] for _, e in chroms]
              and obs_rows(bins) == rows)
        B.check("parse_bins-bed-file==last-ends+rows", ok, case, dict(chromsizes=cs.to_dict(), bins=obs_rows(bins)),
                dict(chromsizes={c: e[-1] for c, e in chroms}, bins=rows), len(rows) > 1)
    os.remove(p)


def check_parse_bins_errors(B):
    p = B.path("sizes-err.txt")
    write_chromsizes(p, [("chr1", 10)])
    for arg, why in ((B.path("missing.txt") + ":10", "missing chromsizes file"), (p + ":ten", "non-integer bin size"),
                     (p + ":1.5", "non-integer bin size"), (B.path("missing.bed"), "neither a file nor file:size")):
        case = dict(layer="parse_bins", arg=arg.replace(B.tmp, "<tmp>"), why=why)
        try:
            got, exc = parse_bins(arg), None
        except ValueError:
            got, exc = None, "ValueError"
        except Exception as ex:
            got, exc = None, f"{type(ex).__name__}: {ex}"
        B.check("parse_bins-raises-ValueError-for-unusable-spec", exc == "ValueError", case, exc or repr(got), "ValueError")
    os.remove(p)


def check_makebins(B, runner, sizes, b, opts, idx):
    p = B.path(f"mb-{idx}.txt")
    write_chromsizes(p, sizes)
    out = B.path(f"mb-{idx}.bed") if "out" in opts else None
    args = ["makebins", p, str(b)]
    if "header" in opts:
        args.append("-H")
    rel = 0 if "rel0" in opts else (1 if "rel1" in opts else None)
    if rel is not None:
        args += ["--rel-ids", str(rel)]
    if out:
        args += ["-o", out]
    case = dict(layer="makebins", idx=idx, chromsizes=[[c, L] for c, L in sizes], binsize=b, options=sorted(opts),
                argv=[a.replace(B.tmp, "<tmp>") for a in args])

    def run():
        res = runner.invoke(cli, args)
        if res.exit_code != 0:
            raise RuntimeError(f"exit {res.exit_code}: {res.output[-300:]} {res.exception!r}")
        return open(out).read() if out else res.output
    text = B.guarded("makebins==tiling-as-BED", case, run)
    if text is not None:
        exp_rows = tiling(sizes, b)
        lines = []
        if "header" in opts:
            lines.append("\t".join(["chrom", "start", "end"] + (["id"] if rel is not None else [])))
        k, prev = 0, None
        for c, s, e in exp_rows:
            k = 0 if c != prev else k + 1
            prev = c
            lines.append("\t".join([c, str(s), str(e)] + ([str(k + rel)] if rel is not None else [])))
        exp = "".join(x + "\n" for x in lines)
        B.check("makebins==tiling-as-BED", text == exp, case, text, exp, len(exp_rows) > 1)
    for q in (p, out):
        if q and os.path.exists(q):
            os.remove(q)


# ------------------------------------------------------------------ main
def replay(B):
    """./check C20 --replay <file>: re-evaluate the recorded case and report whether it still fails"""
    contract, case = B.load_replay()
    layer = case.get("layer")
    sizes = [(c, L) for c, L in case.get("chromsizes", [])]
    chroms = [(c, e) for c, e in case.get("bins", [])]
    if layer == "binnify":
        check_binnify(B, sizes, case["binsize"], case["family"], case["lengths_dtype"], case["binsize_type"])
    elif layer == "inference":
        check_inference(B, chroms, case["family"], case["frame"])
    elif layer == "parse_bins" and case.get("form") == "chromsizes:binsize":
        check_parse_bins(B, sizes, case["binsize"], 0)
    elif layer == "parse_bins" and case.get("form") == "bins BED file":
        check_parse_bins_bed(B, chroms, 0)
    elif layer == "parse_bins":
        check_parse_bins_errors(B)
    elif layer == "makebins":
        check_makebins(B, CliRunner(), sizes, case["binsize"], set(case["options"]), case["idx"])
    B.bound = "replay of one recorded case"
    return B.finish()


def main():
    B = CappedBounded("C20", "bounded/C20.py")
    if B.replay_file:
        return replay(B)
    th = B.thorough
    Ls = range(1, 13)
    widths = range(1, 14)
    # ---- binnify: all chromosome-size tables x widths
    nb = 0
    L3 = list(Ls) if th else [1, 5, 12]
    tables = [[L] for L in Ls] + [[a, b_] for a in Ls for b_ in Ls] + [[a, b_, c] for a in L3 for b_ in L3 for c in L3]
    for i, lens in enumerate(tables):
        sizes = [(NAMES[j], L) for j, L in enumerate(lens)]
        for b in widths:
            check_binnify(B, sizes, b, f"all-{len(lens)}chrom", dtype="int32" if (i + b) % 5 == 0 else "int64",
                          btype="np.int64" if (i + b) % 7 == 0 else "int")
            nb += 1
    # ---- binnify at the bin edge: lengths that are exact multiples of the width (and one more / one less), for EVERY width
    # 1..200 and a set of genome-scale widths, multiples 1..40: this is where any rounding in the bin count shows
    # (a spurious empty last bin, a missing last bin)
    wide = list(range(14, 201)) + [1000, 5000, 25000, 50000, 100000, 200000, 10 ** 6, 2 ** 20 + 1]
    if not th:
        wide = [w for w in wide if w % 2 == 1 or w >= 1000 or w % 25 == 0]
    for b in wide:
        for m in (range(1, 41) if (th or b < 1000) else (1, 2, 3, 6, 7, 11, 12, 25, 39, 40)):
            for d in (0, 1, -1):
                L = b * m + d
                if L >= 1:
                    check_binnify(B, [(NAMES[0], L)], b, "exact-multiples", infer=False)
                    nb += 1
    # ---- inference: all valid tables
    ni = 0
    forms = ["object", "categorical", "int32-coords", "categorical+unused", "extra-columns+offset-index"]
    M1, M2, bins2, M3, bins3 = (12, 7, 4, 5, 3) if th else (12, 6, 3, 3, 3)
    lay1, lay2, lay3 = layouts(M1), layouts(M2, bins2), layouts(M3, bins3)
    for i, e in enumerate(lay1):
        check_inference(B, [(NAMES[0], e)], "all-1chrom", forms[i % 2])
        ni += 1
    for i, (e1, e2) in enumerate(itertools.product(lay2, lay2)):
        check_inference(B, [(NAMES[0], e1), (NAMES[1], e2)], "all-2chrom", forms[i % 2])
        ni += 1
    for i, (e1, e2, e3) in enumerate(itertools.product(lay3, lay3, lay3)):
        check_inference(B, [(NAMES[0], e1), (NAMES[1], e2), (NAMES[2], e3)], "all-3chrom", forms[i % 2])
        ni += 1
    st = structured_tables(th)
    for i, (fam, chroms) in enumerate(st):
        check_inference(B, chroms, fam, forms[i % len(forms)])
        if i % 4 == 0:
            check_inference(B, chroms, fam, forms[(i + 1) % len(forms)])
        ni += 1
    nrand = 0
    if th:
        nrand = 4000
        for i in range(nrand):
            check_inference(B, random_chroms(B.rng), "random<=12", forms[i % len(forms)])
        # beyond the bound: genome-scale sizes, many bins
        for i in range(300):
            b = B.rng.choice([1, 7, 10, 1000, 4096, 10 ** 6, 2 ** 20 + 1, B.rng.randint(1, 10 ** 7)])
            sizes = []
            for j in range(B.rng.randint(1, 3)):
                k = B.rng.randint(0, 300)
                sizes.append((NAMES[j], min(2 ** 31 - 1, k * b + B.rng.choice([1, b, B.rng.randint(1, b)]))))
            check_binnify(B, sizes, b, "random-genome-scale")
        for i in range(300):
            chroms = []
            for j in range(B.rng.randint(1, 3)):
                b = B.rng.choice([1000, 10 ** 6, 2 ** 20 + 1])
                k = B.rng.randint(0, 5)
                last = B.rng.choice([1, b - 1, b, b + 1, 3 * b])
                chroms.append((NAMES[j], list(range(0, k * b + 1, b)) + [k * b + last]))
            check_inference(B, chroms, "random-genome-scale", forms[i % len(forms)])
    # ---- parse_bins and the makebins CLI
    runner = CliRunner()
    cli_sizes = [[("chr1", 12)], [("chr1", 5), ("chr2", 12)], [("chr2", 12), ("chr10", 7), ("chr1", 1)],
                 [("1", 10), ("2", 6), ("X", 5)], [("a", 7), ("b", 7), ("c", 5)], [("chrM", 3), ("chr1", 11)]]
    if th:
        cli_sizes += [[(NAMES[j], L) for j, L in enumerate(lens)] for lens in tables[12:156:5]]
    cli_widths = list(widths) if th else [1, 2, 3, 5, 6, 7, 12, 13]
    optsets = [(), ("header",), ("rel0",), ("rel1", "header"), ("out",), ("out", "rel1")]
    n = 0
    for sizes in cli_sizes:
        for b in cli_widths:
            check_parse_bins(B, sizes, b, n)
            for opts in optsets:
                check_makebins(B, runner, sizes, b, set(opts), n)
                n += 1
    for i, (fam, chroms) in enumerate(st[::7 if th else 25]):
        check_parse_bins_bed(B, chroms, i)
    for i, e in enumerate(lay1[::10 if th else 40]):
        check_parse_bins_bed(B, [("chrQ", e)], 10000 + i)
    check_parse_bins_errors(B)
    B.exhaustive = not th
    B.bound = ("binnify at the bin edge: one chromosome of length width*m + {0, 1, -1} for widths 14..200 "
               + ("(all)" if th else "(odd and multiples of 25)") + " and 8 genome-scale widths, m = 1..40; " +
               f"binnify: ALL chromosome-size tables with 1-2 chromosomes of length 1..12 and 3 chromosomes of length in {list(L3) if not th else '1..12'}"
               f" (ordered) x widths 1..13 = {nb} calls, int64/int32 lengths, int/np.int64 width, each followed by get_binsize and get_chromsizes "
               f"on the result; inference (get_binsize truthful, get_chromsizes): ALL valid bin tables with 1 chromosome (edges<={M1}), "
               f"2 chromosomes (edges<={M2}, <={bins2} bins each), 3 chromosomes (edges<={M3}, <={bins3} bins each), <=4 bins per chromosome, plus {len(st)} structured "
               f"tables with edges<=12 (uniform with shorter/equal/longer last bin, next to one-bin chromosomes, two widths, one bin per "
               f"chromosome) = {ni} tables, chrom column object/categorical(/unused categories), int32 coordinates, extra columns; "
               f"parse_bins + `cooler makebins`: {len(cli_sizes)} chromosome-size files x {len(cli_widths)} widths x 6 option sets, "
               f"BED bin files, 4 unusable specs"
               + (f"; thorough adds seeded sampling: {nrand} random valid tables (<=3 chromosomes, edges<=12, <=4 bins) and, beyond the bound, "
                  f"300 genome-scale binnify calls (<=300 bins per chromosome, lengths < 2^31) and 300 genome-scale tables" if th else ""))
    B.rule = ("case = (chromosome-size table, width, input types) or (bin table, frame form) or (CLI argv); non-trivial: binnify/CLI when the "
              "expected table has more than one bin, get_binsize truthfulness when a size IS reported (implication not vacuous), "
              "get_chromsizes when the table has more than one bin; distinct by (contract, case)")
    return B.finish()


if __name__ == "__main__":
    sys.exit(main())
