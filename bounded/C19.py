"""C19 bounded stand-in: region / URI string parsing of the REAL library against an
independent exact-arithmetic reading of the same strings.

Grammar-exhaustive enumeration (stated bound in B.bound):
  * parse_humanized: every numeral with <= D mantissa digits (every digit string, every
    position of the decimal point, thousands separators when the integer part has >= 4
    digits) x every case spelling of the units k/kb/M/Mb/G/Gb (and no unit for integers);
    the expected value is computed in integer arithmetic (digits * 10^(unit - fraction)).
  * parse_region_string: the same numerals (<= D-1 digits in quick) x 6 documented unit
    spellings, embedded in 4 well-formed shapes (open end, end == start, 0-end, end given
    with thousands separators) x a 12-element set of chromosome names.
  * format -> parse identity on all 0 <= a <= b <= N and on boundary values.
  * one malformation each (empty name, missing hyphen, sign, non-numeric, reversed,
    unknown unit) applied to a grid of names x coordinate spellings: must be refused.
  * parse_region bounds: all (start, end) in {None, -2..L+2}^2 on small chromosomes, string
    and tuple forms, dict / Series / no chromsizes, unknown chromosomes.
  * parse_cooler_uri: files x groups x {bare, f::g, f::/g}; several '::' refused; and the
    spellings opened through cooler.Cooler / is_cooler on a real multi-group file.
  * seeded sampling of numerals with up to 15 significant digits.

What "refused" means here: the call raises an exception (the library uses ValueError).
Out of the property's quantifier and therefore NOT checked (see the final report): decimal
numerals without a unit ("1.0"), decimal multiples that do not denote an integer
("1.2345k"), trailing garbage after a complete range ("chr1:10-20-30", "chr1:10-20 x").
"""
import sys, os
sys.path.insert(0, os.path.dirname(os.path.dirname(os.path.abspath(__file__))))
import itertools
import warnings

warnings.filterwarnings("ignore")
import numpy as np
import pandas as pd
import cooler
from cooler.util import parse_humanized, parse_region_string, parse_region, parse_cooler_uri
from bounded.common import *

UNIT_EXP = {"k": 3, "kb": 3, "m": 6, "mb": 6, "g": 9, "gb": 9}
CANON_UNITS = ["k", "kb", "M", "Mb", "G", "Gb"]            # the documented spellings


def case_variants(u):
    return sorted({"".join(t) for t in itertools.product(*[(ch.lower(), ch.upper()) for ch in u])})


ALL_UNITS = [v for u in UNIT_EXP for v in case_variants(u)]   # 18 spellings, case-insensitive clause

NAMES = ["chr1", "1", "X", "chrUn_gl000220", "chr-1", "scaffold.12", "2L", "chr 1", "123",
         "a-b.c-d", "HLA-A*01.1", "my contig 7-2"]


class Rec:
    """thin recorder: cheap path for passing evaluations (this runner evaluates millions),
    and at most `per_sig` recorded violations per signature so that one frequent failure
    class cannot hide the others; the total per signature is attached at the end."""

    def __init__(self, B, per_sig=2):
        self.B = B
        self.per_sig = per_sig
        self.sig_counts = {}
        B.max_violations = 60

    def ok(self, contract, key, nontrivial=True):
        B = self.B
        n = B.contracts.get(contract, 0)
        if n < 2 or n == 49:
            B.ok(contract, {"input": key}, nontrivial)     # lets common.py collect its samples
            return
        B.evaluations += 1
        B.contracts[contract] = n + 1
        if nontrivial:
            B.nontrivial.add(hash((contract, key)))

    def fail(self, contract, case, observed, expected, signature):
        B = self.B
        k = self.sig_counts.get(signature, 0)
        self.sig_counts[signature] = k + 1
        if k < self.per_sig:
            B.fail(contract, case, observed, expected, signature)
        else:
            B.evaluations += 1
            B.contracts[contract] = B.contracts.get(contract, 0) + 1

    def finish(self):
        for v in self.B.violations:
            v["failures_with_this_signature"] = self.sig_counts.get(v["signature"], 1)
        return self.B.finish()


def call(fn, *a):
    """-> ('ok', value) | ('err', 'Type: msg')"""
    try:
        return "ok", fn(*a)
    except Exception as e:  # refusal (or crash): both are 'an error' for the caller
        return "err", f"{type(e).__name__}: {e}"


def group3(ip):
    """thousands separators in a digit string"""
    out = []
    while len(ip) > 3:
        out.append(ip[-3:])
        ip = ip[:-3]
    out.append(ip)
    return ",".join(reversed(out))


def numerals(dmax):
    """every numeral with <= dmax digits: (text, text-with-separators-or-None, D, k) denoting D / 10^k"""
    for L in range(1, dmax + 1):
        for tup in itertools.product("0123456789", repeat=L):
            ds = "".join(tup)
            D = int(ds)
            for i in range(1, L + 1):
                ip, fp = ds[:i], ds[i:]
                txt = ip + ("." + fp if fp else "")
                ctxt = (group3(ip) + ("." + fp if fp else "")) if len(ip) >= 4 else None
                yield txt, ctxt, D, len(fp)


def kind_of(k, unit, commas, value):
    """kind of numeral, used in failure signatures (thousands separators do not open a new class:
    a separators-only regression still shows up under plain / int-x-unit)"""
    s = "plain" if not unit else ("int-x-unit" if k == 0 else "decimal-x-unit")
    if value > 2 ** 53:
        s += ":above-2^53"
    return s


def spellings(dmax, units):
    """(text, exact value, kind) for every numeral x unit whose exact product is an integer"""
    for txt, ctxt, D, k in numerals(dmax):
        if k == 0:
            yield txt, D, kind_of(0, "", False, D)
            if ctxt:
                yield ctxt, D, kind_of(0, "", True, D)
        for u in units:
            e = UNIT_EXP[u.lower()]
            if k <= e:
                v = D * 10 ** (e - k)
            else:
                num = D * 10 ** e
                if num % 10 ** k:
                    continue          # does not denote an integer: outside the quantifier
                v = num // 10 ** k
            yield txt + u, v, kind_of(k, u, False, v)
            if ctxt:
                yield ctxt + u, v, kind_of(k, u, True, v)


def main():
    B = Bounded("C19", "bounded/C19.py")
    R = Rec(B)
    D_h = 5 if B.thorough else 4        # mantissa digits, parse_humanized directly
    D_r = 4 if B.thorough else 3        # mantissa digits inside region strings
    names_per = 6 if B.thorough else 12  # thorough rotates 6 of the 12 names per spelling (all 12 used overall)
    N_id = 40 if B.thorough else 24
    n15 = 400000 if B.thorough else 40000
    B.bound = (f"parse_humanized: all numerals with <={D_h} mantissa digits (every decimal-point position, thousands separators "
               f"when >=4 integer digits) x {'6 documented' if B.thorough else 'all 18 case'} unit spellings"
               f"{' (+ all 18 case spellings for <=4 digits)' if B.thorough else ''} + unit-less integers; "
               f"parse_region_string: numerals <={D_r} digits x 6 units x 4 well-formed shapes x "
               f"{'6 rotating of ' if B.thorough else ''}12 names; format/parse identity on all 0<=a<=b<={N_id} + boundary values x 12 names; "
               f"6 malformations x 12 names x coordinate grid; parse_region on all (start,end) in {{None,-2..L+2}}^2 for L in (1,4,7), "
               f"string+tuple forms, dict/Series/None chromsizes; URI: 9 files x 8 groups x 3 spellings + multi-'::' + real file; "
               f"on top of the exhaustive bound: {n15} seeded numerals with <=15 significant digits (value < 2^63)")
    B.rule = ("case = one input string (or tuple) and the parser it is given to; every case is non-trivial; distinct by (contract, input); "
              "expected values from integer arithmetic on the digits, never from float")
    # the stated grammar bound is enumerated exhaustively in both tiers; the 15-digit numerals are a seeded sample on top of
    # it (named as such in the bound).  The thorough tier leans on that sample (400k) and is therefore not labelled exhaustive.
    B.exhaustive = not B.thorough

    # ---------------------------------------------------------------- parse_humanized: exact integer
    C = "humanized:denotes-exact-integer"

    def run_humanized(dmax, units):
        for txt, v, kind in spellings(dmax, units):
            st, got = call(parse_humanized, txt)
            if st == "ok" and got == v and isinstance(got, int):
                R.ok(C, txt)
            else:
                R.fail(C, {"fn": "parse_humanized", "input": txt}, got, v, f"{C}:{kind}")
    if B.thorough:
        run_humanized(4, ALL_UNITS)
        # 5-digit numerals only (the <=4 ones were just done) with the documented unit spellings
        for txt, v, kind in spellings(5, CANON_UNITS):
            if sum(ch.isdigit() for ch in txt) < 5:
                continue
            st, got = call(parse_humanized, txt)
            if st == "ok" and got == v:
                R.ok(C, txt)
            else:
                R.fail(C, {"fn": "parse_humanized", "input": txt}, got, v, f"{C}:{kind}")
    else:
        run_humanized(D_h, ALL_UNITS)

    # long fractions: more decimal places than the unit has zeros (trailing zeros, so the numeral still denotes an integer),
    # e.g. "1.2500k" = 1250, "0.0012500M" = 1250: every mantissa of <= 2 significant digits at every position of a fraction
    # of up to (unit exponent + 3) places, integer part 0..12
    CL = "humanized:long-fraction-denotes-exact-integer"
    for u in CANON_UNITS:
        e = UNIT_EXP[u.lower()]
        for flen in range(e + 1, e + 4):
            for pos in range(0, e):
                for sig in list(range(1, 10)) + [10, 25, 99]:
                    frac = ["0"] * flen
                    sd = str(sig)
                    if pos + len(sd) > e:
                        continue
                    frac[pos:pos + len(sd)] = list(sd)
                    for ip in (0, 1, 12):
                        txt = f"{ip}." + "".join(frac) + u
                        v = ip * 10 ** e + int("".join(frac)) * 10 ** e // 10 ** flen
                        st, got = call(parse_humanized, txt)
                        if st == "ok" and got == v:
                            R.ok(CL, txt)
                        else:
                            R.fail(CL, {"fn": "parse_humanized", "input": txt}, got, v, f"{CL}:decimal-x-unit")

    # seeded numerals with up to 15 significant digits, value within int64
    C15 = "humanized:15-digit-sample"
    rng = B.rng
    for _ in range(n15):
        L = rng.randint(5, 15)
        ds = str(rng.randint(1, 9)) + "".join(rng.choice("0123456789") for _ in range(L - 1))
        u = rng.choice(ALL_UNITS + [""] * 3)
        e = UNIT_EXP[u.lower()] if u else 0
        k = rng.randint(0, min(e, L - 1))
        v = int(ds) * 10 ** (e - k)
        if v >= 2 ** 63:
            continue   # coordinates are int64
        ip, fp = ds[:L - k], ds[L - k:]
        commas = rng.random() < 0.3 and len(ip) >= 4
        txt = (group3(ip) if commas else ip) + ("." + fp if fp else "") + u
        st, got = call(parse_humanized, txt)
        if st == "ok" and got == v:
            R.ok(C15, txt)
        else:
            R.fail(C15, {"fn": "parse_humanized", "input": txt, "seed": B.seed}, got, v, f"{C15}:{kind_of(k, u, commas, v)}")

    # ---------------------------------------------------------------- unknown units are refused
    CU = "humanized:unknown-unit-refused"
    letters = "abcdefghijklmnopqrstuvwxyz"
    accepted = set(UNIT_EXP)
    bad_units = [a for a in letters if a not in accepted] + \
                [a + b for a in letters for b in letters if (a + b) not in accepted] + \
                ["kbp", "mbp", "gbp", "kib", "kbb", "kk", "bp", "bk", "kilo", "mega", "%", "k.", "k b", "к"]
    for u in bad_units:
        for uu in sorted({u, u.upper(), u.capitalize()}):
            for num in ("1", "10", "2.5"):
                txt = num + uu
                st, got = call(parse_humanized, txt)
                if st == "err":
                    R.ok(CU, txt)
                else:
                    R.fail(CU, {"fn": "parse_humanized", "input": txt}, got, "an error (unknown unit)", CU)

    # ---------------------------------------------------------------- well-formed region strings
    CW = "region-string:well-formed-denotation"
    counter = 0
    for txt, v, kind in spellings(D_r, CANON_UNITS):
        end_c = f"{v + 1:,}"
        shapes = ((f"{txt}-", v, None, "open"), (f"{txt}-{txt}", v, v, "end==start"),
                  (f"0-{txt}", 0, v, "zero-to"), (f"{txt}-{end_c}", v, v + 1, "end-with-separators"))
        if names_per >= len(NAMES):
            nms = NAMES
        else:
            nms = [NAMES[(counter + j) % len(NAMES)] for j in range(names_per)]
            counter += names_per
        for nm in nms:
            for tail, a, b, shape in shapes:
                s = f"{nm}:{tail}"
                st, got = call(parse_region_string, s)
                if st == "ok" and got == (nm, a, b):
                    R.ok(CW, s)
                else:
                    R.fail(CW, {"fn": "parse_region_string", "input": s}, got, [nm, a, b], f"{CW}:{kind}")
    # bare names, names with outer blanks (name = text before ':' stripped)
    for nm in NAMES:
        for s, exp in ((nm, (nm, None, None)), (f" {nm} ", (nm, None, None)), (f" {nm} :5-7", (nm, 5, 7)),
                       (f"{nm}:5-", (nm, 5, None))):
            st, got = call(parse_region_string, s)
            if st == "ok" and got == exp:
                R.ok(CW, s)
            else:
                R.fail(CW, {"fn": "parse_region_string", "input": s}, got, list(exp), f"{CW}:name-forms")

    # ---------------------------------------------------------------- format -> parse identity
    CI = "region-string:format-parse-identity"
    edge = [0, 1, 999, 1000, 1001, 999999, 1000000, 10 ** 9, 2 ** 31 - 1, 2 ** 31, 2 ** 32 + 1, 2 ** 53 - 1, 2 ** 53 + 1, 2 ** 63 - 1]
    pairs = [(a, b) for a in range(N_id + 1) for b in range(a, N_id + 1)] + \
            [(a, b) for a in edge for b in edge if a <= b]
    for nm in NAMES:
        for a, b in pairs:
            for s, exp in ((f"{nm}:{a}-{b}", (nm, a, b)), (f"{nm}:{a:,}-{b:,}", (nm, a, b))):
                st, got = call(parse_region_string, s)
                if st == "ok" and got == exp:
                    R.ok(CI, s)
                else:
                    R.fail(CI, {"fn": "parse_region_string", "input": s}, got, list(exp), CI)
        for a in list(range(N_id + 1)) + edge:
            s = f"{nm}:{a:,}-"
            st, got = call(parse_region_string, s)
            if st == "ok" and got == (nm, a, None):
                R.ok(CI, s)
            else:
                R.fail(CI, {"fn": "parse_region_string", "input": s}, got, [nm, a, None], CI + ":open-end")
    # the same through parse_region with a chromsizes table: identity on complete triples
    big = {nm: 2 ** 63 - 1 for nm in NAMES}
    for nm in NAMES:
        for a, b in pairs[::7] + [(a, b) for a in edge for b in edge if a <= b]:
            s = f"{nm}:{a:,}-{b}"
            st, got = call(parse_region, s, big)
            if st == "ok" and tuple(got) == (nm, a, b):
                R.ok(CI, ("parse_region", s))
            else:
                R.fail(CI, {"fn": "parse_region", "input": s, "chromsizes": "2^63-1 for every name"}, got, [nm, a, b], CI + ":parse_region")

    # ---------------------------------------------------------------- malformed strings are refused
    CM = "region-string:malformed-refused"
    coords = [("0", 0), ("1", 1), ("10", 10), ("999", 999), ("1,000", 1000), ("1.5k", 1500), ("12.5kb", 12500), ("2M", 2 * 10 ** 6),
              ("3,000,000", 3 * 10 ** 6), ("1G", 10 ** 9)]
    nonnum = ["abc", "start", "x", "ten", "NaN", "inf", "0x1F", "#", "*", "\u0967\u0966", "1/2", "$5", "k", "Mb", ".", "..", "1.2.3", "1.2.3k",
              "\uff11\uff10", "1_000", "1e3", "+10", "(10)", "10bp"]
    badunit = ["x", "kbp", "T", "kk", "bp", "mbs", "Kib", "e", "km", "gbb"]

    def refused(s, kind, fn=parse_region_string, *extra):
        st, got = call(fn, s, *extra)
        if st == "err":
            R.ok(CM, (fn.__name__, s, kind))
        else:
            R.fail(CM, {"fn": fn.__name__, "input": s, "malformation": kind}, got, "an error", f"{CM}:{kind}")

    for blank in ("", " ", "  ", "\t"):
        refused(blank, "empty-name")
        for a, _ in coords:
            refused(f"{blank}:{a}-", "empty-name")
            for b, _ in coords:
                refused(f"{blank}:{a}-{b}", "empty-name")
    for nm in NAMES:
        for a, va in coords:
            refused(f"{nm}:{a}", "missing-hyphen")
            refused(f"{nm}:-{a}-", "negative")
            refused(f"{nm}:-{a}", "negative")
            for b, vb in coords:
                refused(f"{nm}:{a} {b}", "missing-hyphen")
                refused(f"{nm}:{a}:{b}", "missing-hyphen")
                refused(f"{nm}:{a}_{b}", "missing-hyphen")
                refused(f"{nm}:{a}..{b}", "missing-hyphen")
                refused(f"{nm}:-{a}-{b}", "negative")
                refused(f"{nm}:{a}--{b}", "negative")
                refused(f"{nm}:-{a}--{b}", "negative")
                if va > vb:
                    refused(f"{nm}:{a}-{b}", "reversed")
            for bad in nonnum:
                refused(f"{nm}:{bad}-{a}", "non-numeric")
                refused(f"{nm}:{bad}-", "non-numeric")
                if bad not in ("1/2", "1_000"):
                    # as an END coordinate these two are "numeral + more text": listed under text-after-end-coordinate below
                    refused(f"{nm}:{a}-{bad}", "non-numeric")
            for b, vb in coords:
                if va <= vb:
                    # a complete range followed by more text: the end coordinate "<b> xyz" is not a numeral
                    for junk in (" xyz", " 000", " 5", "-30", "- 30", " -", " k", "/2", "_000", ":30"):
                        refused(f"{nm}:{a}-{b}{junk}", "text-after-end-coordinate")
            for u in badunit:
                for num in ("1", "2.5", "1,000"):
                    refused(f"{nm}:{num}{u}-{a}", "unknown-unit")
                    refused(f"{nm}:0-{num}{u}", "unknown-unit")
                    refused(f"{nm}:{num}{u}-", "unknown-unit")
        # reversed by one, across spellings and magnitudes
        for v in [1, 10, 999, 1000, 1001, 10 ** 6, 10 ** 9, 2 ** 31, 2 ** 53]:
            refused(f"{nm}:{v}-{v - 1}", "reversed")
            refused(f"{nm}:{v:,}-{v - 1:,}", "reversed")
        for a, b in (("1k", "999"), ("1M", "999,999"), ("1G", "999.999M"), ("2k", "1.5k"), ("1.5M", "1,499k"), ("1kb", "0")):
            refused(f"{nm}:{a}-{b}", "reversed")

    # ---------------------------------------------------------------- parse_region: defaults and bounds
    CB = "parse_region:bounds-and-defaults"
    sizes = {"chr1": 7, "chr-2.b": 4, "3": 1, "my contig 7-2": 4}
    tables = {"dict": sizes, "series": pd.Series(sizes, dtype=np.int64), "none": None}
    for tname, table in tables.items():
        for chrom in list(sizes) + ["chrZ", "chr", "CHR1", "chr1 x"]:
            L = sizes.get(chrom)
            Lr = L if L is not None else 5
            vals = [None] + list(range(-2, Lr + 3))
            for s_ in vals:
                for e_ in vals:
                    forms = [("tuple", (chrom, s_, e_))]
                    if s_ is not None and s_ >= 0 and (e_ is None or e_ >= 0):
                        forms.append(("string", f"{chrom}:{s_}-" + ("" if e_ is None else str(e_))))
                    if s_ is None and e_ is None:
                        forms.append(("string", chrom))
                    s1 = 0 if s_ is None else s_
                    if table is None:
                        exp = None if e_ is None or not (0 <= s1 <= e_) else (chrom, s1, e_)
                        why = "no-end-without-chromsizes" if e_ is None else "out-of-range"
                    elif L is None:
                        exp, why = None, "unknown-chromosome"
                    else:
                        e1 = L if e_ is None else e_
                        exp = (chrom, s1, e1) if 0 <= s1 <= e1 <= L else None
                        why = "out-of-range"
                    for form, reg in forms:
                        st, got = call(parse_region, reg, table)
                        case = {"fn": "parse_region", "region": list(reg) if form == "tuple" else reg, "chromsizes": tname, "sizes": sizes}
                        if exp is None:
                            if st == "err":
                                R.ok(CB, (form, repr(reg), tname))
                            else:
                                R.fail(CB, case, got, "an error", f"{CB}:{why}-accepted:{'open-end' if e_ is None else 'closed'}")
                        else:
                            if st == "ok" and tuple(got) == exp and all(int(x) == x for x in got[1:]):
                                R.ok(CB, (form, repr(reg), tname))
                            else:
                                R.fail(CB, case, got, list(exp), f"{CB}:in-range-{'open-end' if e_ is None else 'closed'}")
    # realistic sizes with humanized spellings (in range / beyond the chromosome)
    big1 = {"chr1": 1_000_000, "chr2": 2_500_000_000}
    for s, exp in [("chr1:0.5M-1M", ("chr1", 500000, 1000000)), ("chr1:500k-", ("chr1", 500000, 1000000)),
                   ("chr1:1,000k-1M", ("chr1", 1000000, 1000000)), ("chr2:2.5G-", ("chr2", 2500000000, 2500000000)),
                   ("chr2:0-2,500Mb", ("chr2", 0, 2500000000)), ("chr1:0-1.1M", None), ("chr1:1,000,001-", None),
                   ("chr1:2M-", None), ("chr2:2.6G-", None), ("chr2:0-2,500,000,001", None), ("chr3:0-1k", None), ("chr1:0-1000k", ("chr1", 0, 1000000))]:
        st, got = call(parse_region, s, big1)
        case = {"fn": "parse_region", "region": s, "sizes": big1}
        if exp is None:
            (R.ok(CB, ("big", s)) if st == "err" else R.fail(CB, case, got, "an error", f"{CB}:out-of-range-accepted:humanized"))
        else:
            (R.ok(CB, ("big", s)) if st == "ok" and tuple(got) == exp else R.fail(CB, case, got, list(exp), f"{CB}:in-range-humanized"))

    # ---------------------------------------------------------------- URIs
    CU1 = "uri:splits-to-file-and-group"
    files = ["/a/b/c.cool", "rel/x.mcool", "a b.cool", "C:\\data\\x.cool", "s3://bkt/x.cool", "x", "./x.cool", "with:colon.cool", "t.scool"]
    groups = ["", "a", "resolutions/1000", "a/b/c/", "cells/cell-1.x", "g h", "0", "resolutions/1000/"]
    for f in files:
        for g in groups:
            exp = (f, "/" + g)
            sp = [f"{f}::{g}", f"{f}::/{g}"] + ([f] if g == "" else [])
            res = []
            for uri in sp:
                st, got = call(parse_cooler_uri, uri)
                res.append(got)
                if st == "ok" and tuple(got) == exp:
                    R.ok(CU1, uri)
                else:
                    R.fail(CU1, {"fn": "parse_cooler_uri", "input": uri}, got, list(exp),
                           f"{CU1}:{'empty-group' if g == '' else 'group'}:{'slash' if '::/' in uri else 'no-slash' if '::' in uri else 'bare'}")
            if all(r == res[0] for r in res):
                R.ok("uri:slash-spelling-irrelevant", (f, g))
            else:
                R.fail("uri:slash-spelling-irrelevant", {"fn": "parse_cooler_uri", "inputs": sp}, res, [list(exp)] * len(sp),
                       "uri:slash-spelling-irrelevant:" + ("empty-group" if g == "" else "group"))
        for g, h in itertools.product(groups[:4], repeat=2):
            for uri in (f"{f}::{g}::{h}", f"{f}::/{g}::/{h}"):
                st, got = call(parse_cooler_uri, uri)
                if st == "err":
                    R.ok("uri:several-separators-refused", uri)
                else:
                    R.fail("uri:several-separators-refused", {"fn": "parse_cooler_uri", "input": uri}, got, "an error", "uri:several-separators-refused")

    # the same on a real multi-group file, through the public API
    CR = "uri:spellings-open-the-same-cooler"
    path = B.path("multi.cool")
    bins = pd.DataFrame({"chrom": ["c1"] * 3 + ["c2"] * 2, "start": [0, 10, 20, 0, 10], "end": [10, 20, 25, 10, 17]})
    grp_pix = {"": [(0, 0, 1)], "resolutions/10": [(0, 1, 2), (1, 4, 3)], "a/b": [(2, 2, 4), (2, 3, 5), (4, 4, 6)]}
    for g, px in grp_pix.items():
        df = pd.DataFrame(px, columns=["bin1_id", "bin2_id", "count"])
        B.guarded(CR, {"create": g}, lambda: cooler.create_cooler(path + ("::" + g if g else ""), bins, df, mode="a"))
    for g, px in grp_pix.items():
        sp = [f"{path}::{g}", f"{path}::/{g}"] + ([path] if g == "" else [])
        for uri in sp:
            case = {"uri": uri.replace(B.tmp, "<tmp>"), "group": g}

            def obs():
                c = cooler.Cooler(uri)
                return (c.filename, c.root.rstrip("/") or "/", [tuple(int(x) for x in r) for r in c.pixels()[:].values.tolist()], cooler.fileops.is_cooler(uri))
            got = B.guarded(CR, case, obs, signature=f"{CR}:{'empty-group' if g == '' else 'group'}")
            if got is not None:
                exp = (path, ("/" + g).rstrip("/") or "/", px, True)
                if got == exp:
                    R.ok(CR, uri)
                else:
                    R.fail(CR, case, got, exp, f"{CR}:{'empty-group' if g == '' else 'group'}")
    # region strings through a selector on that file (observe_at: any fetch taking a region string)
    CF = "fetch:region-string-as-parsed"
    clr = cooler.Cooler(path + "::a/b")
    btab = bins.copy()
    for chrom, L in (("c1", 25), ("c2", 17)):
        for a in range(0, L + 1):
            for b in range(a + 1, L + 1):   # non-empty ranges only (empty ranges at the chromosome end: C04's finding)
                for s in (f"{chrom}:{a}-{b}", f"{chrom}:{a}-") if b == L else (f"{chrom}:{a}-{b}",):
                    case = {"uri": "<tmp>/multi.cool::a/b", "region": s}
                    got = B.guarded(CF, case, lambda: clr.bins().fetch(s))
                    if got is None:
                        continue
                    m = (btab.chrom == chrom) & (btab.end > a) & (btab.start < b)
                    if got.index.tolist() == btab.index[m].tolist():
                        R.ok(CF, s)
                    else:
                        R.fail(CF, case, got.index.tolist(), btab.index[m].tolist(), CF)
    return R.finish()


if __name__ == "__main__":
    sys.exit(main())
