"""Bounded stand-in tier: executable contracts evaluated on the REAL code over
an exhaustively enumerated small scope (stated bound), plus seeded sampling
beyond it in the thorough tier.  Never counted as proved."""
import argparse
import hashlib
import itertools
import json
import os
import random
import shutil
import sys
import tempfile
import time
import traceback

import numpy as np
import pandas as pd

ROOT = os.path.dirname(os.path.dirname(os.path.abspath(__file__)))
OUT = os.environ.get("VERIF_OUT", ROOT)   # where replays/ are written


class Bounded:
    def __init__(self, pid, script):
        ap = argparse.ArgumentParser()
        ap.add_argument("--tier", default="quick")
        ap.add_argument("--seed", type=int, default=0)
        ap.add_argument("--replay")
        a = ap.parse_args()
        self.pid = pid
        self.script = script
        self.tier = a.tier
        self.seed = a.seed
        self.replay_file = a.replay
        self.rng = random.Random(a.seed)
        self.nprng = np.random.default_rng(a.seed)
        self.evaluations = 0
        self.nontrivial = set()
        self.samples = []
        self.violations = []
        self.contracts = {}
        self.tmp = tempfile.mkdtemp(prefix=f"verif-{pid}-")
        self.t0 = time.time()
        self.bound = ""
        self.rule = ""
        self.exhaustive = True
        self.max_violations = 12

    @property
    def thorough(self):
        return self.tier == "thorough"

    def path(self, name):
        return os.path.join(self.tmp, name)

    def ok(self, contract, case, nontrivial=True, sample=False):
        self.evaluations += 1
        self.contracts[contract] = self.contracts.get(contract, 0) + 1
        if nontrivial:
            self.nontrivial.add(hashlib.md5(repr((contract, case)).encode()).hexdigest())
        if sample or (len(self.samples) < 6 and self.contracts[contract] in (1, 50)):
            self.samples.append({"contract": contract, "case": _short(case)})

    def fail(self, contract, case, observed, expected, signature=None):
        self.evaluations += 1
        self.contracts[contract] = self.contracts.get(contract, 0) + 1
        if len(self.violations) >= self.max_violations:
            return
        os.makedirs(os.path.join(OUT, "replays", self.pid), exist_ok=True)
        h = hashlib.md5(repr((contract, case)).encode()).hexdigest()[:10]
        path = os.path.join(OUT, "replays", self.pid, f"bounded-{contract}-{h}.json")
        rec = {"property": self.pid, "bounded_case": True, "script": self.script, "contract": contract,
               "case": case, "observed": _short(observed, 1500), "expected": _short(expected, 1500),
               "signature": signature or contract,
               "replay_cmd": f"./check {self.pid} --replay {path}"}
        json.dump(rec, open(path, "w"), indent=1, default=str)
        self.violations.append({"contract": contract, "replay": path, "signature": signature or contract,
                                "case": _short(case)})

    def check(self, contract, cond, case, observed=None, expected=None, nontrivial=True, signature=None):
        if cond:
            self.ok(contract, case, nontrivial)
        else:
            self.fail(contract, case, observed, expected, signature)
        return bool(cond)

    def guarded(self, contract, case, fn, signature=None):
        """run fn(); an unexpected exception is a contract failure with that case"""
        try:
            return fn()
        except Exception as e:
            self.fail(contract, case, f"{type(e).__name__}: {e}\n{traceback.format_exc(limit=4)}",
                      "no exception", signature or (contract + ":exception"))
            return None

    def finish(self):
        shutil.rmtree(self.tmp, ignore_errors=True)
        out = {"property": self.pid, "tier": self.tier, "seed": self.seed, "bound": self.bound, "rule": self.rule,
               "evaluations": self.evaluations, "distinct_nontrivial": len(self.nontrivial),
               "exhaustive": self.exhaustive, "samples": self.samples[:8], "violations": self.violations,
               "contracts_evaluated": self.contracts, "wall_s": round(time.time() - self.t0, 2)}
        print(json.dumps(out, default=str))
        return 0


def _short(x, n=400):
    s = x if isinstance(x, str) else json.dumps(x, default=str)
    return s if len(s) <= n else s[:n] + "..."


# ------------------------------------------------------------------ scope
def bin_tables(max_chroms=2, small=True):
    """named bin tables (chromsizes dict, bins DataFrame): fixed width with short
    last bin, exact multiple, variable width, single-bin chromosomes"""
    out = []

    def fixed(sizes, b):
        rows = []
        for c, ln in sizes.items():
            for s in range(0, ln, b):
                rows.append((c, s, min(s + b, ln)))
        return pd.DataFrame(rows, columns=["chrom", "start", "end"])

    def var(spec):
        rows = []
        for c, edges in spec.items():
            for s, e in zip(edges[:-1], edges[1:]):
                rows.append((c, s, e))
        return pd.DataFrame(rows, columns=["chrom", "start", "end"])
    out.append(("fixed10-short-last", fixed({"chr1": 25, "chr2": 17}, 10)))
    out.append(("fixed10-exact", fixed({"chr1": 30, "chr2": 20}, 10)))
    out.append(("variable", var({"chr1": [0, 3, 10, 12, 30], "chr2": [0, 8, 9]})))
    out.append(("one-bin-chroms", var({"a": [0, 7], "b": [0, 7], "c": [0, 5]})))
    out.append(("single-chrom-fixed", fixed({"chrX": 42}, 10)))
    if not small:
        out.append(("fixed-3chrom", fixed({"chr1": 31, "chr2": 9, "chr3": 20}, 10)))
        out.append(("variable-long-last", var({"chr1": [0, 10, 20, 45], "chr2": [0, 10, 20]})))
    return out


def chromsizes_of(bins):
    return bins.groupby("chrom", sort=False)["end"].max()


def matrices(n, rng, count=4):
    """named dense integer matrices n x n (to be stored upper / square)"""
    out = []
    z = np.zeros((n, n), dtype=np.int64)
    out.append(("empty", z.copy()))
    d = z.copy()
    for i in range(n):
        d[i, i] = i + 1
    out.append(("diagonal", d))
    full = np.arange(1, n * n + 1, dtype=np.int64).reshape(n, n)
    out.append(("dense", full))
    sp = z.copy()
    for _ in range(max(1, n)):
        i, j = rng.randrange(n), rng.randrange(n)
        sp[i, j] = rng.randrange(1, 9)
    if n > 2:
        sp[1, :] = 0  # an empty row
        sp[:, 1] = 0
    out.append(("sparse-empty-row", sp))
    last = z.copy()
    last[n - 1, n - 1] = 5
    last[0, n - 1] = 3
    out.append(("corners", last))
    return out[:count] if count < len(out) else out


def pixels_from_dense(A, symmetric_upper):
    n = A.shape[0]
    rows = []
    for i in range(n):
        for j in range(n):
            if symmetric_upper and j < i:
                continue
            if A[i, j] != 0:
                rows.append((i, j, int(A[i, j])))
    return pd.DataFrame(rows, columns=["bin1_id", "bin2_id", "count"]).astype(
        {"bin1_id": np.int64, "bin2_id": np.int64, "count": np.int32})


def full_matrix(pix, n, symmetric_upper, col="count"):
    M = np.zeros((n, n), dtype=float)
    for r, c, v in zip(pix["bin1_id"], pix["bin2_id"], pix[col]):
        M[r, c] += v
        if symmetric_upper and r != c:
            M[c, r] += v
    return M


def make_cooler(path, bins, pixels, symmetric_upper=True, **kw):
    import cooler
    cooler.create_cooler(path, bins, pixels, symmetric_upper=symmetric_upper, ordered=True, **kw)
    return path


def all_windows(n):
    for i0 in range(n + 1):
        for i1 in range(i0, n + 1):
            for j0 in range(n + 1):
                for j1 in range(j0, n + 1):
                    yield i0, i1, j0, j1
