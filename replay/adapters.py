"""Turn concretised solver models into real calls (under /venv/bin/python)."""
import importlib

import numpy as np


class MapView(dict):
    """a real dict (usable by the real code) that also answers the contract's has()/get() questions"""

    def has(self, k):
        return k in self

    def get(self, k, d=None):
        return dict.get(self, k, d if d is not None else 0)


def cview(x):
    """contract-side view of a real argument (slice -> SliceV)"""
    from pyvc.api import SliceV
    if isinstance(x, slice):
        return SliceV(x.start, x.stop, x.step)
    if isinstance(x, tuple):
        return tuple(cview(e) for e in x)
    return x


def conv(x):
    if isinstance(x, dict):
        if "array" in x:
            return np.array([conv(e) for e in x["array"]], dtype=(float if x.get("kind") == "real" else
                                                                     bool if x.get("kind") == "bool" else np.int64))
        if "tuple" in x:
            return tuple(conv(e) for e in x["tuple"])
        if "slice" in x:
            return slice(*[conv(e) for e in x["slice"]])
        if "dict" in x:
            return {k: conv(v) for k, v in x["dict"].items()}
        if "frac" in x:
            return x["frac"][0] / x["frac"][1]
        if "symmap" in x:
            return MapView({k: conv(v["get"]) for k, v in x["symmap"].items() if v["has"]})
        if "obj" in x:
            return build_obj(x["obj"], {k: conv(v) for k, v in x["attrs"].items()})
        return x
    if isinstance(x, list):
        return [conv(e) for e in x]
    return x


def build_obj(cls, attrs):
    if cls == "_IndexingMixin":
        from cooler.core._selectors import _IndexingMixin
        return _IndexingMixin()
    if cls == "CSRReader":
        from cooler.core._rangequery import CSRReader
        return CSRReader(attrs["pixel_grp"], attrs["bin1_offsets"])
    raise NotImplementedError(f"no builder for {cls}")


def load_contract(target):
    import contracts  # noqa
    import os
    d = os.path.dirname(contracts.__file__)
    for fn in sorted(os.listdir(d)):
        if fn.endswith(".py") and fn != "__init__.py":
            importlib.import_module("contracts." + fn[:-3])
    from pyvc.api import REGISTRY
    return REGISTRY.get(target)


def resolve(target):
    modname, qual = target.split(":")
    mod = importlib.import_module(modname)
    obj = mod
    parts = qual.split(".")
    for p in parts:
        obj = getattr(obj, p)
    return obj, parts


CUSTOM = {}


def custom(target):
    def deco(f):
        CUSTOM[target] = f
        return f
    return deco


@custom("cooler.core._rangequery:_region_to_extent")
def _replay_region_to_extent(inputs):
    from cooler.core._rangequery import _region_to_extent
    a = {k: conv(v) for k, v in inputs.items()}
    h5, ids, region, binsize = a["h5"], a["chrom_ids"], a["region"], a["binsize"]
    chrom, s, e = region
    out = {"inputs_used": repr(a)[:600]}
    try:
        lo, hi = tuple(_region_to_extent(h5, ids, region, binsize))
        lo, hi = int(lo), int(hi)
    except Exception as ex:
        out.update(raised=f"{type(ex).__name__}: {ex}", violations=[], violates_contract=False,
                   note="model does not describe a well-formed table (abstraction artefact)")
        return out
    c = ids[chrom]
    off = h5["indexes"]["chrom_offset"]
    st, en = h5["bins"]["start"], h5["bins"]["end"]
    ks = range(int(off[c]), int(off[c + 1]))
    exp = [k for k in ks if st[k] < e and en[k] > s] if s < e else [k for k in ks if st[k] <= s < en[k]]
    got = list(range(lo, hi))
    viol = []
    if s < e and got != exp:
        viol.append(f"extent {lo, hi} selects bins {got}, overlapping bins are {exp}")
    if s == e and not (len(got) <= 1 and all(k in exp for k in got)):
        viol.append(f"empty range at {s}: extent {lo, hi} selects bins {got}; bins containing the position: {exp}")
    out.update(returned=repr((lo, hi)), raised=None, violations=viol, violates_contract=bool(viol))
    return out


def _bins_frame(fr):
    """{"opaque": "DataFrameV"} cannot be rebuilt: frames are passed through their ghost arrays"""
    raise NotImplementedError


@custom("cooler.util:get_binsize")
def _replay_get_binsize(inputs, ghost=None):
    import pandas as pd
    from cooler.util import get_binsize
    g = {k: conv(v) for k, v in (ghost or {}).items()}
    off, start, end = g["off"], g["start"], g["end"]
    nchrom = int(g["nchrom"])
    chrom = np.zeros(len(start), dtype=int)
    for c in range(nchrom):
        chrom[int(off[c]):int(off[c + 1])] = c
    names = [f"chr{c}" for c in range(nchrom)]
    bins = pd.DataFrame({"chrom": pd.Categorical.from_codes(chrom, names, ordered=True), "start": start, "end": end})
    out = {"inputs_used": bins.to_dict("list")}
    b = get_binsize(bins)
    out["returned"] = repr(b)
    viol = []
    if b is not None:
        for c in range(nchrom):
            lo, hi = int(off[c]), int(off[c + 1])
            L = int(end[hi - 1])
            for k in range(lo, hi):
                if not (start[k] == (k - lo) * b and end[k] == min((k - lo + 1) * b, L)):
                    viol.append(f"reported fixed size {b} but bin {k} of chromosome {c} is [{start[k]},{end[k]}), "
                                f"not [{(k - lo) * b},{min((k - lo + 1) * b, L)})")
                    break
    out.update(raised=None, violations=viol[:3], violates_contract=bool(viol))
    return out


@custom("cooler.util:rlencode")
def _replay_rlencode(inputs):
    from cooler.util import rlencode
    a = conv(inputs["array"])
    cs = conv(inputs.get("chunksize"))
    out = {"inputs_used": {"array": a.tolist(), "chunksize": cs}}
    if cs is not None and cs < 1:
        out.update(violations=[], violates_contract=False, note="precondition chunksize >= 1 violated by the model")
        return out
    st, ln, vl = rlencode(a, cs)
    exp_st = [k for k in range(len(a)) if k == 0 or a[k] != a[k - 1]]
    exp_vl = [int(a[k]) for k in exp_st]
    exp_ln = [(exp_st[j + 1] if j + 1 < len(exp_st) else len(a)) - exp_st[j] for j in range(len(exp_st))]
    viol = []
    if list(map(int, st)) != exp_st:
        viol.append(f"starts {list(map(int, st))} != change points {exp_st}")
    if list(map(int, vl)) != exp_vl:
        viol.append(f"values {list(map(int, vl))} != {exp_vl}")
    if list(map(int, ln)) != exp_ln:
        viol.append(f"lengths {list(map(int, ln))} != {exp_ln}")
    out.update(returned=repr((list(map(int, st)), list(map(int, ln)), list(map(int, vl)))), raised=None,
               violations=viol, violates_contract=bool(viol))
    return out


def _index_builder(fnname, keycol):
    def run(inputs):
        import cooler.create._create as C
        a = {k: conv(v) for k, v in inputs.items()}
        A = np.asarray(a["grp"][keycol])
        names = [k for k in a if k != "grp"]
        nvals, total = int(a[names[0]]), int(a[names[1]])
        out = {"inputs_used": {keycol: A.tolist(), names[0]: nvals, names[1]: total}}
        pre = (nvals >= 0 and total == len(A) and all(A[i] <= A[i + 1] for i in range(len(A) - 1))
               and all(0 <= x < nvals for x in A))
        out["precondition_holds"] = bool(pre)
        if not pre:
            out.update(violations=[], violates_contract=False, note="model violates the precondition (loop-state model)")
            return out
        O = getattr(C, fnname)({keycol: A}, nvals, total)
        exp = [int(np.searchsorted(A, i, "left")) for i in range(nvals + 1)]
        viol = [] if list(map(int, O)) == exp else [f"{fnname} returned {list(map(int, O))}, the run-length index is {exp}"]
        out.update(returned=repr(list(map(int, O))), raised=None, violations=viol, violates_contract=bool(viol))
        return out
    return run


CUSTOM["cooler.create._create:index_pixels"] = _index_builder("index_pixels", "bin1_id")
CUSTOM["cooler.create._create:index_bins"] = _index_builder("index_bins", "chrom")


@custom("cooler._reduce:merge_breakpoints")
def _replay_merge_breakpoints(inputs):
    from cooler._reduce import merge_breakpoints
    a = {k: conv(v) for k, v in inputs.items()}
    idx = [np.asarray(x) for x in a["indexes"]]
    buf = int(a["bufsize"])
    out = {"inputs_used": {"indexes": [x.tolist() for x in idx], "bufsize": buf}}
    n = len(idx[0])
    pre = n >= 2 and buf >= 1 and all(len(x) == n and x[0] == 0 and all(x[i] <= x[i + 1] for i in range(n - 1)) for x in idx)
    out["precondition_holds"] = bool(pre)
    if not pre:
        out.update(violations=[], violates_contract=False, note="model violates the precondition (loop-state model)")
        return out
    try:
        P, Cm = merge_breakpoints(idx, buf)
    except Exception as e:
        out.update(raised=f"{type(e).__name__}: {e}", violations=[f"raised {type(e).__name__}"], violates_contract=True)
        return out
    ci = sum(idx)
    viol = []
    P = list(map(int, P))
    if P[0] != 0 or any(P[i] >= P[i + 1] for i in range(len(P) - 1)):
        viol.append(f"partition {P} is not strictly increasing from 0")
    if ci[P[-1]] != ci[-1]:
        viol.append(f"last boundary {P[-1]} does not exhaust the inputs: combined_index there {ci[P[-1]]} != total {ci[-1]}")
    if [float(x) for x in Cm] != [float(ci[p]) for p in P]:
        viol.append("cum_nrecords does not match combined_index at the boundaries")
    out.update(returned=repr((P, list(map(float, Cm)))), raised=None, violations=viol, violates_contract=bool(viol))
    return out


@custom("cooler._reduce:_greedy_prune_partition")
def _replay_gpp(inputs):
    from cooler._reduce import _greedy_prune_partition
    a = {k: conv(v) for k, v in inputs.items()}
    e = np.asarray(a["edges"]); ml = int(a["maxlen"])
    out = {"inputs_used": {"edges": e.tolist(), "maxlen": ml}}
    pre = len(e) >= 2 and e[0] == 0 and ml >= 1 and all(e[i] <= e[i + 1] for i in range(len(e) - 1))
    out["precondition_holds"] = bool(pre)
    if not pre:
        out.update(violations=[], violates_contract=False)
        return out
    r = list(map(int, _greedy_prune_partition(e, ml)))
    viol = []
    if any(x not in set(e.tolist()) for x in r):
        viol.append(f"result {r} contains values that are not edges {e.tolist()}")
    if r[0] != 0 or r[-1] != e[-1] or any(r[i] > r[i + 1] for i in range(len(r) - 1)):
        viol.append(f"result {r} does not run from 0 to {e[-1]} in order")
    out.update(returned=repr(r), raised=None, violations=viol, violates_contract=bool(viol))
    return out


@custom("cooler.util:partition")
def _replay_partition(inputs):
    from cooler.util import partition
    a = {k: conv(v) for k, v in inputs.items()}
    st, sp, step = int(a["start"]), int(a["stop"]), int(a["step"])
    out = {"inputs_used": a}
    if step < 1:
        out.update(violations=[], violates_contract=False)
        return out
    r = [(int(x), int(y)) for x, y in partition(st, sp, step)]
    exp = [(i, min(i + step, sp)) for i in range(st, sp, step)]
    viol = [] if r == exp else [f"partition{(st, sp, step)} = {r}, expected {exp}"]
    out.update(returned=repr(r), raised=None, violations=viol, violates_contract=bool(viol))
    return out


def _balance_filter(name):
    def run(inputs):
        import cooler._balance as Bm
        a = {k: conv(v) for k, v in inputs.items()}
        chunk = a["chunk"]
        px = {k: np.asarray(v) for k, v in chunk["pixels"].items()}
        bins = {k: np.asarray(v) for k, v in chunk["bins"].items()}
        ch = {"pixels": px, "bins": bins}
        nb = len(bins["chrom"])
        out = {"inputs_used": repr(a)[:600]}
        if any(not (0 <= x < nb) for x in list(px["bin1_id"]) + list(px["bin2_id"])):
            out.update(violations=[], violates_contract=False, note="model violates the precondition")
            return out
        snap = {k: v.copy() for k, v in px.items()}
        b1, b2 = px["bin1_id"], px["bin2_id"]
        if name == "_init":
            r = Bm._init(ch)
            r[...] = r + 1 if len(r) else r
            viol = [] if np.array_equal(px["count"], snap["count"]) else ["_init returned the chunk's own count array (writes go through)"]
            out.update(returned="copy" if not viol else "alias", raised=None, violations=viol, violates_contract=bool(viol))
            return out
        d0 = np.asarray(a["data"], dtype=float)
        data = d0.copy()
        c = bins["chrom"]
        if name == "_binarize":
            r = Bm._binarize(ch, data); exp = np.where(d0 != 0, 1, d0)
        elif name == "_zero_diags":
            nd = int(a["n_diags"]); r = Bm._zero_diags(nd, ch, data); exp = np.where(np.abs(b1 - b2) < nd, 0, d0)
        elif name == "_zero_trans":
            r = Bm._zero_trans(ch, data); exp = np.where(c[b1] != c[b2], 0, d0)
        elif name == "_zero_cis":
            r = Bm._zero_cis(ch, data); exp = np.where(c[b1] == c[b2], 0, d0)
        else:
            vec = np.asarray(a["vec"], dtype=float)
            if len(vec) != nb:
                out.update(violations=[], violates_contract=False, note="model violates the precondition")
                return out
            r = Bm._timesouterproduct(vec, ch, data); exp = vec[b1] * vec[b2] * d0
        viol = [] if np.allclose(r, exp) else [f"{name} gave {np.asarray(r).tolist()}, expected {exp.tolist()}"]
        if any(not np.array_equal(px[k], snap[k]) for k in px):
            viol.append("the shared chunk was written")
        out.update(returned=repr(np.asarray(r).tolist()), raised=None, violations=viol, violates_contract=bool(viol))
        return out
    return run


for _n in ("_init", "_binarize", "_zero_diags", "_zero_trans", "_zero_cis", "_timesouterproduct"):
    CUSTOM["cooler._balance:" + _n] = _balance_filter(_n)


def replay(target, inputs, ghost=None):
    if target in CUSTOM:
        import inspect
        if "ghost" in inspect.signature(CUSTOM[target]).parameters:
            return CUSTOM[target](inputs, ghost=ghost)
        return CUSTOM[target](inputs)
    c = load_contract(target)
    args = {k: conv(v) for k, v in inputs.items()}
    fn, parts = resolve(target)
    out = {"inputs_used": {k: repr(v)[:200] for k, v in args.items()}}
    cargs = {("self_" if k == "self" else k): cview(v) for k, v in args.items()}
    # precondition on the concrete input (models of instantiated queries may violate quantified clauses)
    try:
        from pyvc.spec import _all
        pre = c.requires(**cargs)
        pre_ok = all(bool(_all(x)) for x in (pre.values() if isinstance(pre, dict) else pre))
    except Exception as e:
        pre_ok = None
        out["requires_error"] = f"{type(e).__name__}: {e}"
    out["precondition_holds"] = pre_ok
    raised = None
    result = None
    try:
        if "self" in args:
            pos = dict(args)
            slf = pos.pop("self")
            result = getattr(slf, parts[-1])(**pos)
        else:
            result = fn(**args)
    except Exception as e:
        raised = e
    out["returned"] = repr(result)[:400] if raised is None else None
    out["raised"] = None if raised is None else f"{type(raised).__name__}: {raised}"
    viol = []
    if pre_ok is not False:
        if raised is not None:
            allowed = False
            for en, condfn in getattr(c, "raises", {}).items():
                if type(raised).__name__ == en or any(b.__name__ == en for b in type(raised).__mro__):
                    try:
                        if bool(condfn(**cargs)):
                            allowed = True
                    except Exception:
                        pass
            if not allowed:
                viol.append(f"raised {type(raised).__name__} where the contract does not allow it")
        else:
            for en, condfn in getattr(c, "raises", {}).items():
                try:
                    if getattr(c, "raises_exact", True) and bool(condfn(**cargs)):
                        viol.append(f"returned normally where the contract requires {en}")
                except Exception:
                    pass
            try:
                ens = c.ensures(result, **cargs)
                for nm, cond in (ens.items() if isinstance(ens, dict) else enumerate(ens)):
                    if not bool(_all(cond)):
                        viol.append(f"ensures:{nm} is false on the real result")
            except TypeError as e:
                out["ensures_error"] = f"not replayable generically: {e}"
            except Exception as e:
                out["ensures_error"] = f"{type(e).__name__}: {e}"
    out["violations"] = viol
    out["violates_contract"] = bool(viol)
    return out


@custom("cooler.fileops:_copy")
def _replay_copy(inputs, ghost=None):
    """real files for a counter-model of the _copy contract: a small cooler at the source group, an unrelated
    group next to it, and (when the model says the destination file exists) a destination file holding an
    unrelated group.  Checks the property itself on the files afterwards.  The model's flags, same/different
    file and destination-exists bits are kept; its group paths (abstract strings) are tried first and then
    re-chosen among a few concrete layouts, since solvers return the degenerate src_group == dst_group == "/"."""
    g = {k: conv(v) for k, v in (ghost or {}).items()}
    a = {k: conv(v) for k, v in inputs.items()}
    same = g.get("sp") == g.get("dp")
    sg0 = "/" if g.get("sg") == "/" else "/grp_s"
    dg0 = "/" if g.get("dg") == "/" else (sg0 if g.get("dg") == g.get("sg") else "/grp_d/nested")
    layouts = [(sg0, dg0)] + [x for x in [("/grp_s", "/grp_d/nested"), ("/", "/grp_d"), ("/grp_s", "/")] if x != (sg0, dg0)]
    first = None
    for n, (sg, dg) in enumerate(layouts):
        if same and dg == "/" and n > 0:
            continue
        out = _copy_once(a, g, same, sg, dg)
        out["layout"] = "group paths of the counter-model" if n == 0 else "group paths re-chosen (same flags, same/different file, destination-exists as in the counter-model)"
        if first is None:
            first = out
        if out["violates_contract"]:
            return out
    return first


def _copy_once(a, g, same, sg, dg):
    import os
    import tempfile
    import h5py
    import pandas as pd
    import cooler
    from cooler.fileops import _copy
    exists = bool(g.get("exists", False)) or same
    flags = {k: bool(a.get(k, False)) for k in ("overwrite", "link", "rename", "soft_link")}
    out = {"inputs_used": dict(flags, same_file=same, src_group=sg, dst_group=dg, dst_file_exists=exists)}
    d = tempfile.mkdtemp(prefix="pyvc_copy_")
    sp = os.path.join(d, "s.cool")
    dp = sp if same else os.path.join(d, "d.cool")
    bins = pd.DataFrame({"chrom": ["a", "a", "b"], "start": [0, 5, 0], "end": [5, 9, 4]})
    pix = pd.DataFrame({"bin1_id": [0, 0, 1], "bin2_id": [0, 2, 2], "count": [1, 2, 3]})
    cooler.create_cooler(sp + "::" + sg, bins, pix)
    with h5py.File(sp, "r+") as f:
        f.create_group("unrelated_src").attrs["tag"] = 1
    if exists and not same:
        with h5py.File(dp, "w") as f:
            f.create_group("unrelated_dst").attrs["tag"] = 2
    before = cooler.Cooler(sp + "::" + sg).pixels()[:]
    raised = None
    try:
        _copy(sp + "::" + sg, dp + "::" + dg, **flags)
    except Exception as e:
        raised = e
    out["raised"] = None if raised is None else f"{type(raised).__name__}: {raised}"
    viol = []
    many = sum([flags["link"], flags["rename"], flags["soft_link"]]) > 1
    if many or (flags["link"] and not same):
        want = ValueError if many else OSError
        if not isinstance(raised, want):
            viol.append(f"expected {want.__name__}, got {out['raised']}")
    elif raised is not None:
        out["note"] = "the real h5py refused this combination; not judged"
    elif not (same and sg == dg):
        try:
            after = cooler.Cooler(dp + "::" + dg).pixels()[:]
            if not after.equals(before):
                viol.append("destination does not read identically to the source")
        except Exception as e:
            viol.append(f"destination is not readable as a collection: {type(e).__name__}: {e}")
        src_there = cooler.fileops.is_cooler(sp + "::" + sg)
        if flags["rename"] and src_there:
            viol.append("source still present after a move")
        if not flags["rename"] and not src_there:
            viol.append("source gone although the operation is not a move")
        with h5py.File(sp, "r") as f:
            if "unrelated_src" not in f:
                viol.append("an unrelated group of the source file is gone")
        if exists and not same and not flags["overwrite"]:
            with h5py.File(dp, "r") as f:
                if "unrelated_dst" not in f:
                    viol.append("the existing destination file was truncated without overwrite")
    import shutil
    shutil.rmtree(d, ignore_errors=True)
    out.update(returned=None, violations=viol, violates_contract=bool(viol))
    return out


@custom("cooler.create._create:_rename_chroms")
def _replay_rename(inputs, ghost=None):
    """a real cooler whose chromosome names follow the counter-model (made distinct / non-empty, keeping which names
    are equal), renamed with the model's map; checks the property on the file afterwards"""
    import os
    import shutil
    import tempfile
    import h5py
    import numpy as np
    import pandas as pd
    import cooler
    from cooler.create._create import _rename_chroms
    g = {k: conv(v) for k, v in (ghost or {}).items()}
    old = [str(x) for x in list(g.get("old") or [])][:6]
    has = [bool(x) for x in list(g.get("has_of_old") or [])][:len(old)]
    to = [str(x) for x in list(g.get("to_of_old") or [])][:len(old)]
    if len(old) == 0:
        old, has, to = ["a", "b"], [True, True], ["b", "a"]
    # sanitise: printable, non-empty, distinct old names; equal strings stay equal across old/to
    table = {}

    def san(x):
        if x not in table:
            ok = x.isalnum() and x.isascii() and x not in table.values()
            table[x] = x if ok else f"n{len(table)}"
        return table[x]
    names, seen = [], set()
    for x in old:
        y = san(x)
        while y in seen:
            y = y + "x"
        seen.add(y)
        names.append(y)
    rmap = {names[i]: san(to[i]) for i in range(len(names)) if has[i]}
    expected = [rmap.get(n, n) for n in names]
    out = {"inputs_used": {"names": names, "rename_dict": rmap, "enum": bool(g.get("enum", True))}}
    if len(set(expected)) != len(expected):
        out.update(violations=[], violates_contract=False, note="the map makes two names collide: outside the property")
        return out
    d = tempfile.mkdtemp(prefix="pyvc_ren_")
    p = os.path.join(d, "r.cool")
    bins = pd.DataFrame({"chrom": np.repeat(names, 2), "start": [0, 10] * len(names), "end": [10, 17] * len(names)})
    n = len(bins)
    pix = pd.DataFrame({"bin1_id": list(range(n)), "bin2_id": [min(i + 1, n - 1) for i in range(n)], "count": list(range(1, n + 1))})
    cooler.create_cooler(p, bins, pix)
    if not g.get("enum", True):
        with h5py.File(p, "r+") as f:
            codes = f["bins/chrom"][:].astype("int32")
            del f["bins/chrom"]
            f["bins"].create_dataset("chrom", data=codes)
    c0 = cooler.Cooler(p)
    before = {nm: c0.matrix(balance=False, sparse=False).fetch(nm) for nm in names}
    pix0, lens0 = c0.pixels()[:], list(c0.chromsizes.values)
    raised = None
    try:
        with h5py.File(p, "r+") as f:
            _rename_chroms(f, rmap, {})
    except Exception as e:
        raised = e
    viol = []
    out["raised"] = None if raised is None else f"{type(raised).__name__}: {raised}"
    if raised is not None:
        viol.append(f"renaming raised {out['raised']}")
    else:
        c1 = cooler.Cooler(p)
        if list(c1.chromnames) != expected:
            viol.append(f"chromosome names {list(c1.chromnames)} != {expected}")
        if list(c1.chromsizes.values) != lens0:
            viol.append("chromosome lengths changed")
        got = [str(x) for x in c1.bins()[:]["chrom"]]
        if got != [x for e in expected for x in (e, e)]:
            viol.append(f"bin table labels {got}")
        if not c1.pixels()[:].equals(pix0):
            viol.append("pixels changed")
        for o, nnm in zip(names, expected):
            try:
                if not np.array_equal(c1.matrix(balance=False, sparse=False).fetch(nnm), before[o]):
                    viol.append(f"region {nnm} does not return what {o} returned")
            except Exception as e:
                viol.append(f"fetch({nnm}) raised {type(e).__name__}: {e}")
    shutil.rmtree(d, ignore_errors=True)
    out.update(returned=None, violations=viol, violates_contract=bool(viol))
    return out


def _cooler_from_model(g):
    """a real cooler file that agrees with the counter-model on the chromosome named by the region (bins of
    chromosome c as in the model); the other chromosomes are rebuilt as small regular ones, so expectations are
    recomputed on the file's own table rather than taken from the model's numbers"""
    import os
    import tempfile
    import pandas as pd
    import cooler
    nchrom = int(g.get("nchrom") or 0)
    c = g.get("c")
    off, st, en, clen = (list(g.get(k)) if g.get(k) is not None else [] for k in ("off", "start", "end", "clen"))
    b = g.get("binsize")
    if not (isinstance(c, int) and 0 <= c < nchrom <= 6 and len(off) > c + 1):
        return None
    lo, hi = int(off[c]), int(off[c + 1])
    if not (0 <= lo < hi <= len(st) and hi <= len(en) and hi - lo <= 40):
        return None
    rows = []
    for i in range(nchrom):
        if i == c:
            rows += [(f"c{i}", int(st[k]), int(en[k])) for k in range(lo, hi)]
        else:
            w = int(b) if b else 7
            rows += [(f"c{i}", 0, w), (f"c{i}", w, w + max(1, w // 2))]
    bins = pd.DataFrame(rows, columns=["chrom", "start", "end"])
    if (bins["end"] <= bins["start"]).any() or (bins["start"] < 0).any():
        return None
    n = len(bins)
    pix = pd.DataFrame({"bin1_id": list(range(n)), "bin2_id": list(range(n)), "count": [1] * n})
    d = tempfile.mkdtemp(prefix="pyvc_ext_")
    p = os.path.join(d, "m.cool")
    cooler.create_cooler(p, bins, pix)
    return d, p, bins, f"c{c}"


def _replay_cooler_region(method):
    def run(inputs, ghost=None):
        import shutil
        import cooler
        g = {k: conv(v) for k, v in (ghost or {}).items()}
        a = {"region": conv(inputs["region"])}
        out = {"inputs_used": {"region": repr(a.get("region")), "ghost": {k: repr(v)[:80] for k, v in g.items()}}}
        if g.get("known"):
            built = _cooler_from_model(g)
        else:
            # a chromosome the collection does not have: any table will do, the name must be refused
            built = _cooler_from_model({"nchrom": 2, "c": 0, "off": [0, 2, 4], "start": [0, 5, 0, 5], "end": [5, 9, 5, 8],
                                        "clen": [9, 8], "binsize": None})
            if built is not None:
                built = built[:3] + ("no_such_chromosome",)
        if built is None:
            out.update(violations=[], violates_contract=False, note="model does not describe a buildable table; not judged")
            return out
        d, p, bins, name = built
        reg = list(a["region"])
        region = (name, reg[1], reg[2])
        clr = cooler.Cooler(p)
        unknown = name not in clr.chromsizes
        L_ = 0 if unknown else int(clr.chromsizes[name])
        s = 0 if region[1] is None else int(region[1])
        e = L_ if region[2] is None else int(region[2])
        bad = unknown or e < s or s < 0 or e > L_
        viol, res, raised = [], None, None
        try:
            res = getattr(clr, method)(region)
        except Exception as ex:
            raised = ex
        out["raised"] = None if raised is None else f"{type(raised).__name__}: {raised}"
        out["returned"] = repr(res)
        idx = [k for k in range(len(bins)) if bins["chrom"][k] == name]
        ov = [k for k in idx if bins["start"][k] < e and bins["end"][k] > s]
        if bad:
            if not isinstance(raised, ValueError):
                viol.append(f"{method}{region} should be refused with ValueError, got {out['raised'] or res}")
        elif raised is not None:
            viol.append(f"{method}{region} raised {out['raised']}")
        elif s < e:
            if method == "extent" and list(range(int(res[0]), int(res[1]))) != ov:
                viol.append(f"extent{region} = {res}, overlapping bins are {ov}")
            if method == "offset" and (not ov or int(res) != ov[0]):
                viol.append(f"offset{region} = {res}, first overlapping bin is {ov[:1]}")
        shutil.rmtree(d, ignore_errors=True)
        out.update(violations=viol, violates_contract=bool(viol))
        return out
    return run


def _replay_cooler_fetch(kind):
    """the _fetch closures of Cooler.bins()/pixels()/matrix() on a real cooler built from the counter-model (one
    diagonal pixel per bin, so pixel row k belongs to bin k); expectations recomputed from the file's own bin table"""
    def run(inputs, ghost=None):
        import shutil
        import cooler
        g = {k: conv(v) for k, v in (ghost or {}).items()}
        reg = list(conv(inputs["region"]))
        reg2 = conv(inputs.get("region2")) if inputs.get("region2") is not None else None
        out = {"inputs_used": {"region": repr(reg), "region2": repr(reg2)}}
        if g.get("known"):
            built = _cooler_from_model(g)
        else:
            built = _cooler_from_model({"nchrom": 2, "c": 0, "off": [0, 2, 4], "start": [0, 5, 0, 5], "end": [5, 9, 5, 8],
                                        "clen": [9, 8], "binsize": None})
            if built is not None:
                built = built[:3] + ("no_such_chromosome",)
        if built is None:
            out.update(violations=[], violates_contract=False, note="model does not describe a buildable table; not judged")
            return out
        d, p, bins, name = built
        clr = cooler.Cooler(p)
        unknown = name not in clr.chromsizes
        L_ = 0 if unknown else int(clr.chromsizes[name])

        def resolve(r):
            s = 0 if r[1] is None else int(r[1])
            e = L_ if r[2] is None else int(r[2])
            bad = unknown or e < s or s < 0 or e > L_
            idx = [k for k in range(len(bins)) if bins["chrom"][k] == name]
            return s, e, bad, [k for k in idx if bins["start"][k] < e and bins["end"][k] > s]
        region = (name, reg[1], reg[2])
        region2 = None if reg2 is None else (name, list(reg2)[1], list(reg2)[2])
        s, e, bad, ov = resolve(region)
        viol, res, raised = [], None, None
        try:
            if kind == "bins":
                res = clr.bins()._fetch(region)
            elif kind == "pixels":
                res = clr.pixels()._fetch(region)
            else:
                res = clr.matrix(balance=False)._fetch(region) if region2 is None else clr.matrix(balance=False)._fetch(region, region2)
        except Exception as ex:
            raised = ex
        out["raised"] = None if raised is None else f"{type(raised).__name__}: {raised}"
        out["returned"] = repr(res)
        checks = [(region, s, e, bad, ov, 0)]
        if kind == "matrix":
            s2, e2, bad2, ov2 = resolve(region2 if region2 is not None else region)
            checks.append((region2 if region2 is not None else region, s2, e2, bad2, ov2, 2))
        if any(c[3] for c in checks):
            if not isinstance(raised, ValueError):
                viol.append(f"{kind}._fetch{region, region2} should be refused with ValueError, got {out['raised'] or res}")
        elif raised is not None:
            viol.append(f"{kind}._fetch{region, region2} raised {out['raised']}")
        else:
            for r, s_, e_, _, ov_, at in checks:
                if s_ < e_ and list(range(int(res[at]), int(res[at + 1]))) != ov_:
                    viol.append(f"{kind}._fetch{r} -> rows {tuple(int(x) for x in res[at:at + 2])}, overlapping bins (= their pixel rows) are {ov_}")
        shutil.rmtree(d, ignore_errors=True)
        out.update(violations=viol, violates_contract=bool(viol))
        return out
    return run


CUSTOM["cooler.api:Cooler.bins._fetch"] = _replay_cooler_fetch("bins")
CUSTOM["cooler.api:Cooler.pixels._fetch"] = _replay_cooler_fetch("pixels")
CUSTOM["cooler.api:Cooler.matrix._fetch"] = _replay_cooler_fetch("matrix")
CUSTOM["cooler.api:Cooler.extent"] = _replay_cooler_region("extent")
CUSTOM["cooler.api:Cooler.offset"] = _replay_cooler_region("offset")


def _replay_selector(dim):
    """a real RangeSelector with recording slicer: the bounds handed to the slicer must select what the same
    subscript selects on range(n) (the array rule); exceptions as for arrays"""
    def run(inputs, ghost=None):
        from cooler.core._selectors import RangeSelector1D, RangeSelector2D
        g = {k: conv(v) for k, v in (ghost or {}).items()}
        key = conv(inputs["key"])
        n = int(g.get("n") or 0)
        m = int(g.get("m") or 0)
        calls = []

        def slicer(*a):
            calls.append(a)
            return "frame"
        sel = RangeSelector1D("F", slicer, None, n) if dim == 1 else RangeSelector2D("F", slicer, None, (n, m))
        out = {"inputs_used": {"key": repr(key), "n": n, "m": m}}
        raised = None
        try:
            sel[key]
        except Exception as e:
            raised = e
        out["raised"] = None if raised is None else f"{type(raised).__name__}: {raised}"
        viol = []
        if isinstance(key, (str, list)):
            out.update(violations=[], violates_contract=False, note="column subscript: not replayed")
            return out
        parts = key if isinstance(key, tuple) else (key,)
        dims = [n, m][:dim]
        if len(parts) > dim:
            if not isinstance(raised, IndexError):
                viol.append(f"too many indices should raise IndexError, got {out['raised']}")
        else:
            parts = list(parts) + [slice(None)] * (dim - len(parts))
            exp, err = [], False
            for k, size in zip(parts, dims):
                if isinstance(k, slice):
                    exp.append(list(range(size))[k])
                elif -size <= k < size:
                    exp.append([list(range(size))[k]])
                elif k >= size:
                    err = True
                else:
                    out.update(violations=[], violates_contract=False, note="scalar below -n: outside the contract")
                    return out
            if err:
                if not isinstance(raised, IndexError):
                    viol.append(f"out-of-range scalar should raise IndexError, got {out['raised']}")
            elif raised is not None:
                viol.append(f"raised {out['raised']}")
            elif len(calls) != 1:
                viol.append(f"slicer called {len(calls)} times")
            else:
                a = calls[0]
                got = [list(range(size))[int(a[1 + 2 * i]):int(a[2 + 2 * i])] if a[1 + 2 * i] <= a[2 + 2 * i] else []
                       for i, size in enumerate(dims)]
                if got != exp:
                    viol.append(f"slicer got bounds {a[1:]}, selecting {got}; the subscript selects {exp}")
        out.update(returned=repr(calls), violations=viol, violates_contract=bool(viol))
        return out
    return run


CUSTOM["cooler.core._selectors:RangeSelector1D.__getitem__"] = _replay_selector(1)
CUSTOM["cooler.core._selectors:RangeSelector2D.__getitem__"] = _replay_selector(2)


@custom("cooler.create._create:create")
def _replay_create(inputs, ghost=None):
    """the counter-model's own mode / append / occupied bits first; then the neighbouring file modes with an
    occupied target (solvers return the default write mode, under which a stale collection cannot survive)"""
    g = dict(ghost or {})
    first = None
    tried = [(inputs.get("mode"), bool(inputs.get("append")), bool(g.get("r_group_exists", True)))]
    tried += [x for x in [("a", False, True), (None, True, True), ("r+", False, True), ("w", False, True)] if x not in tried]
    for n, (mode, append, occ) in enumerate(tried):
        inp = dict(inputs, mode=mode, append=append)
        gg = dict(g, r_group_exists=occ)
        out = _create_once(inp, gg)
        out["variant"] = "the counter-model's file mode" if n == 0 else "neighbouring file mode (same flags otherwise)"
        if first is None:
            first = out
        if out.get("violates_contract") or out.get("note"):
            return out if out.get("violates_contract") else first
    return first


def _create_once(inputs, ghost=None):
    """real files for a counter-model of the create() contract: a file that already holds an unrelated
    collection and (when the model says the target exists) an older, different collection with a stale extra
    dataset at the target; then create() with the model's mode / append / flags; then the property itself:
    append keeps everything else, write replaces the file, an occupied target is replaced completely, and
    the new collection reads back as given with consistent indexes and info."""
    import os
    import shutil
    import tempfile
    import h5py
    import numpy as np
    import pandas as pd
    import cooler
    from cooler.create._create import create
    g = ghost or {}
    out = {"inputs_used": {k: inputs.get(k) for k in ("mode", "append", "symmetric_upper", "boundscheck", "triucheck",
                                                       "dupcheck", "ensure_sorted")}}
    if g.get("r_scool") or g.get("r_refusal"):
        out.update(violations=[], violates_contract=False, note="single-cell append / refusal configurations are not replayed")
        return out
    root = bool(g.get("r_root"))
    occupied = bool(g.get("r_group_exists", True))
    mode, append = inputs.get("mode"), bool(inputs.get("append"))
    su = bool(inputs.get("symmetric_upper", True))
    eff = mode if mode is not None else ("a" if append else "w")
    d = tempfile.mkdtemp(prefix="pyvc_create_")
    p = os.path.join(d, "f.cool")
    target = p if root else p + "::/grp/x"
    bins = pd.DataFrame({"chrom": ["a", "a", "b"], "start": [0, 5, 0], "end": [5, 9, 4]})
    old = pd.DataFrame({"bin1_id": [0, 1], "bin2_id": [1, 2], "count": [7, 7]})
    # four pixels over three bins (so counts cannot be confused); a lower-triangle record in square mode
    new = pd.DataFrame({"bin1_id": [0, 0, 1, 2], "bin2_id": [0, 2, 1, 2 if su else 0], "count": [1, 2, 3, 4]})
    cooler.create_cooler(p + "::/other", bins, old)
    with h5py.File(p, "r+") as f:
        f.attrs["unrelated"] = 5
    if occupied:
        cooler.create_cooler(target, bins, old, mode="a")
        with h5py.File(p, "r+") as f:
            tg = f["/" if root else "/grp/x"]
            if not root:
                tg.create_dataset("stale", data=np.arange(3))
    raised = None
    try:
        create(target, bins, new, mode=mode, append=append, symmetric_upper=su,
               boundscheck=bool(inputs.get("boundscheck", True)), triucheck=bool(inputs.get("triucheck", True)),
               dupcheck=bool(inputs.get("dupcheck", True)), ensure_sorted=bool(inputs.get("ensure_sorted", False)))
    except Exception as e:
        raised = e
    out["raised"] = None if raised is None else f"{type(raised).__name__}: {raised}"
    viol = []
    if raised is not None:
        if eff == "r+" or eff == "a" or eff == "w":
            viol.append(f"create raised {out['raised']}")
    else:
        try:
            c = cooler.Cooler(target)
            px = c.pixels()[:]
            if not (list(px["bin1_id"]) == list(new["bin1_id"]) and list(px["bin2_id"]) == list(new["bin2_id"])
                    and list(px["count"]) == [1, 2, 3, 4]):
                viol.append("the new collection does not read back as the pixels given")
            if c.info["nnz"] != 4 or c.info["nbins"] != 3 or c.info["sum"] != 10:
                viol.append(f"info record wrong: {dict((k, c.info[k]) for k in ('nnz', 'nbins', 'sum'))}")
            if c.info.get("storage-mode") != ("symmetric-upper" if su else "square"):
                viol.append("storage-mode attribute does not follow symmetric_upper")
            with h5py.File(p, "r") as f:
                tg = f["/" if root else "/grp/x"]
                if list(tg["indexes/bin1_offset"][:]) != [0, 2, 3, 4] or list(tg["indexes/chrom_offset"][:]) != [0, 2, 3]:
                    viol.append("indexes do not describe the written tables")
                if not root and "stale" in tg:
                    viol.append("re-creating at an occupied path kept a stale dataset of the old collection")
                kept = "other" in f and "unrelated" in f.attrs
                if eff == "w" and ("other" in f):
                    viol.append("write mode did not replace the file (an older collection survived)")
                if eff in ("a", "r+") and not kept:
                    viol.append("append mode lost another collection or an unrelated attribute of the file")
            if eff in ("a", "r+"):
                o = cooler.Cooler(p + "::/other").pixels()[:]
                if list(o["count"]) != [7, 7]:
                    viol.append("append mode changed another collection")
        except Exception as e:
            viol.append(f"the result cannot be read: {type(e).__name__}: {e}")
    shutil.rmtree(d, ignore_errors=True)
    out.update(returned=None, violations=viol, violates_contract=bool(viol))
    return out


@custom("cooler._balance:balance_cooler")
def _replay_balance(inputs, ghost=None):
    """a real 7-bin, two-chromosome cooler balanced with the counter-model's mode, thresholds and chunk size:
    (1) the result must not depend on the chunk size (compared with chunksize=None and with one pixel per chunk),
    (2) every bin excluded by min_nnz / min_count (recomputed from the pixel table with the library's own
        marginal convention) must carry NaN and no kept bin with remaining data may,
    (3) converged must be var < tol and the statistics record must have the documented keys."""
    import os
    import shutil
    import tempfile
    import warnings
    import numpy as np
    import pandas as pd
    import cooler
    from cooler._balance import balance_cooler
    g = ghost or {}
    mode = g.get("r_mode", "genomewide")

    def small(x, lo, hi, dflt):
        return x if isinstance(x, int) and not isinstance(x, bool) and lo <= x <= hi else dflt
    cs = inputs.get("chunksize")
    cs = None if cs is None else small(cs, 1, 50, 3)
    ig = inputs.get("ignore_diags")
    ig = False if ig is False or ig is None else small(ig, 0, 4, 1)
    min_nnz = small(inputs.get("min_nnz"), -5, 12, 2)
    min_count = small(inputs.get("min_count"), -5, 60, 0)
    opts = dict(cis_only=(mode == "cis"), trans_only=(mode == "trans"), ignore_diags=ig, mad_max=0, min_nnz=min_nnz,
                min_count=min_count, tol=1e-9, max_iters=500, rescale_marginals=bool(inputs.get("rescale_marginals", True)))
    out = {"inputs_used": dict(opts, chunksize=cs)}
    sizes = [4, 3]
    bins = pd.DataFrame({"chrom": ["a"] * 4 + ["b"] * 3, "start": [0, 10, 20, 30, 0, 10, 20], "end": [10, 20, 30, 40, 10, 20, 30]})
    rng = np.random.RandomState(7)
    rows = []
    for i in range(7):
        for j in range(i, 7):
            if (i, j) in ((2, 2), (2, 3), (1, 2), (0, 2), (2, 4), (2, 5), (2, 6)) and not (j == 4):
                continue          # bin 2 is nearly empty: one contact only
            rows.append((i, j, int(rng.randint(1, 9))))
    pix = pd.DataFrame(rows, columns=["bin1_id", "bin2_id", "count"])
    d = tempfile.mkdtemp(prefix="pyvc_bal_")
    p = os.path.join(d, "b.cool")
    cooler.create_cooler(p, bins, pix)
    clr = cooler.Cooler(p)
    chrom = np.repeat([0, 1], sizes)

    def judge(opts, cs):
        viol = []
        min_nnz, min_count, ig = opts["min_nnz"], opts["min_count"], opts["ignore_diags"]

        def run(chunksize):
            with warnings.catch_warnings():
                warnings.simplefilter("ignore")
                return balance_cooler(clr, chunksize=chunksize, **opts)
        try:
            w, st = run(cs)
            w0, st0 = run(None)
            w1, st1 = run(1)
        except Exception as e:
            return [f"balance_cooler raised {type(e).__name__}: {e}"], None
        for other, nm in ((w0, "chunksize=None"), (w1, "chunksize=1")):
            if not (np.array_equal(np.isnan(w), np.isnan(other)) and np.allclose(np.nan_to_num(w), np.nan_to_num(other), rtol=1e-7, atol=1e-12)):
                viol.append(f"weights with chunksize={cs} differ from {nm}: {np.round(w, 6).tolist()} vs {np.round(other, 6).tolist()}")
        nnzm, cnt = np.zeros(7), np.zeros(7)
        for i, j, v in rows:
            if opts["cis_only"] and chrom[i] != chrom[j]:
                continue
            if ig and abs(i - j) < ig:
                continue
            nnzm[i] += 1
            nnzm[j] += 1
            cnt[i] += v
            cnt[j] += v
        excl = np.zeros(7, bool)
        if min_nnz > 0:
            excl |= nnzm < min_nnz
        if min_count:
            excl |= cnt < min_count
        for k in range(7):
            if excl[k] and not np.isnan(w[k]):
                viol.append(f"bin {k} is excluded by min_nnz/min_count (nnz marginal {nnzm[k]}, count marginal {cnt[k]}) but has weight {w[k]}")
        for k in range(7):
            if excl[k]:
                continue
            has = False
            for i, j, v in rows:
                if k not in (i, j) or excl[i] or excl[j]:
                    continue
                if ig and abs(i - j) < ig:
                    continue
                if opts["cis_only"] and chrom[i] != chrom[j]:
                    continue
                if opts["trans_only"] and chrom[i] == chrom[j]:
                    continue
                has = True
            if has and np.isnan(w[k]):
                viol.append(f"bin {k} passes the filters and has data left but carries NaN (min_nnz={min_nnz}, min_count={min_count})")
        keys = {"tol", "min_nnz", "min_count", "mad_max", "cis_only", "ignore_diags", "scale", "converged", "var", "divisive_weights"}
        if set(st) != keys:
            viol.append(f"stats keys {sorted(st)}")
        elif np.ndim(st["var"]) == 0 and bool(st["converged"]) != bool(st["var"] < st["tol"]):
            viol.append(f"converged={st['converged']} but var={st['var']}, tol={st['tol']}")
        return viol, w
    # the counter-model's thresholds first, then the thresholds at and next to each marginal of this matrix
    # (a threshold defect shows only where a marginal equals the threshold)
    cands = [(min_nnz, min_count)] + [(t, 0) for t in range(1, 13)] + [(0, t) for t in (1, 2, 5, 10, 15, 20, 25, 30, 35, 40, 45, 50)]
    viol, w = [], None
    for n_try, (a_, b_) in enumerate(cands):
        viol, w = judge(dict(opts, min_nnz=a_, min_count=b_), cs)
        if viol:
            out["inputs_used"].update(min_nnz=a_, min_count=b_, thresholds="the counter-model's" if n_try == 0 else "re-chosen next to a marginal of the replay matrix")
            break
    shutil.rmtree(d, ignore_errors=True)
    out.update(returned=repr(np.round(w, 5).tolist()) if w is not None else None, raised=None, violations=viol, violates_contract=bool(viol))
    return out


@custom("cooler.create._create:write_pixels")
def _replay_write_pixels(inputs, ghost=None):
    """a real HDF5 group prepared by prepare_pixels, then write_pixels over chunks with the counter-model's
    lengths (and fractional counts in the float configuration); the columns must hold the concatenation of the
    chunks, their length must be the returned nnz, the returned total the sum of the counts.  The model's chunk
    lengths are tried first, then a few fixed length patterns (empty chunks first/last/between)."""
    import os
    import shutil
    import tempfile
    import threading
    import h5py
    import numpy as np
    from cooler.create._create import prepare_pixels, write_pixels
    g = {k: conv(v) for k, v in (ghost or {}).items()}
    lens0 = [int(x) for x in list(g.get("r_lens") if g.get("r_lens") is not None else [])][:8]
    lens0 = [x if 0 <= x <= 6 else 2 for x in lens0]
    real = bool(g.get("r_real_count"))
    has_count = bool(g.get("r_has_count", True))
    cols = ["bin1_id", "bin2_id", "count" if has_count else "score"]
    out = {"inputs_used": {"chunk_lengths": lens0, "float_counts": real, "columns": cols}}
    first = None
    for n_try, lens in enumerate([lens0, [], [0], [0, 0], [2], [0, 3], [3, 0], [1, 0, 2], [2, 2, 1]]):
        d = tempfile.mkdtemp(prefix="pyvc_wp_")
        p = os.path.join(d, "w.h5")
        dt = {"bin1_id": np.int64, "bin2_id": np.int64, cols[2]: (np.float64 if real else np.int32)}
        with h5py.File(p, "w") as f:
            prepare_pixels(f.create_group("g/pixels"), 10, 55, cols, dt, {})
        chunks, k = [], 0
        for n in lens:
            val = (np.arange(k, k + n) % 7 + (0.5 if real else 0)).astype(dt[cols[2]])
            chunks.append({"bin1_id": np.arange(k, k + n) // 5, "bin2_id": np.arange(k, k + n) % 10, cols[2]: val})
            k += n
        viol, raised, res = [], None, None
        try:
            res = write_pixels(p, "g/pixels", cols, iter(chunks), {}, threading.Lock() if g.get("r_lock") else None)
        except Exception as e:
            raised = e
        if raised is not None:
            viol.append(f"write_pixels raised {type(raised).__name__}: {raised}")
        else:
            nnz, total = res
            if nnz != k:
                viol.append(f"returned nnz {nnz}, chunks hold {k} records")
            with h5py.File(p, "r") as f:
                for c in cols:
                    got = f["g/pixels"][c][:]
                    exp = np.concatenate([ch[c] for ch in chunks]) if chunks else np.array([])
                    if len(got) != k:
                        viol.append(f"column {c} has length {len(got)}, {k} records were given")
                    elif k and not np.array_equal(got, exp):
                        viol.append(f"column {c} is not the concatenation of the chunks")
            exp_total = float(sum(ch[cols[2]].sum() for ch in chunks)) if has_count else 0
            if has_count and float(total) != exp_total:
                viol.append(f"returned total {total}, the counts sum to {exp_total}")
        shutil.rmtree(d, ignore_errors=True)
        r = dict(out, chunk_lengths_used=lens, returned=repr(res), raised=None if raised is None else str(raised),
                 violations=viol, violates_contract=bool(viol),
                 variant="the counter-model's chunk lengths" if n_try == 0 else "fixed chunk-length pattern")
        if first is None:
            first = r
        if viol:
            return r
    return first


@custom("cooler._reduce:CoolerMerger.__iter__")
def _replay_merger_iter(inputs, ghost=None):
    """k real coolers whose bin1_offset indexes follow the counter-model (row sizes capped to what an upper
    triangle can hold), merged with the model's buffer size: the concatenation of the yielded chunks must be the
    sorted group-by-sum of all input pixels.  The model's buffer size first, then 1, 2, 3, 5 and 10**6."""
    import os
    import shutil
    import tempfile
    import numpy as np
    import pandas as pd
    import cooler
    from cooler._reduce import CoolerMerger
    g = {k: conv(v) for k, v in (ghost or {}).items()}
    k = int(g.get("r_k") or 1)
    Os = [[int(x) for x in list(g.get(f"r_O{i}"))] for i in range(k) if g.get(f"r_O{i}") is not None]
    out = {"inputs_used": {"indexes": [o[:12] for o in Os], "mergebuf": g.get("r_mergebuf")}}
    if len(Os) != k or any(len(o) < 2 or len(o) > 9 for o in Os):
        Os = [[0, 2, 2, 3, 5], [0, 0, 1, 4, 4], [0, 3, 3, 3, 4]][:k]
        out["inputs_used"]["indexes"] = Os
        out["inputs_used"]["note"] = "model indexes not buildable: a fixed family of indexes with empty rows is used"
    nb = len(Os[0]) - 1
    d = tempfile.mkdtemp(prefix="pyvc_mi_")
    bins = pd.DataFrame({"chrom": ["a"] * nb, "start": [10 * i for i in range(nb)], "end": [10 * (i + 1) for i in range(nb)]})
    clrs, allpix = [], []
    for i, O in enumerate(Os):
        rows = []
        for r in range(nb):
            cnt = max(0, min(O[r + 1] - O[r], nb - r))
            rows += [(r, r + j, 1 + (i + r + j) % 4) for j in range(cnt)]
        pix = pd.DataFrame(rows, columns=["bin1_id", "bin2_id", "count"]).astype({"bin1_id": int, "bin2_id": int, "count": int})
        p = os.path.join(d, f"in{i}.cool")
        cooler.create_cooler(p, bins, pix)
        clrs.append(cooler.Cooler(p))
        allpix.append(pix)
    exp = pd.concat(allpix).groupby(["bin1_id", "bin2_id"], sort=True)["count"].sum().reset_index()
    mb0 = g.get("r_mergebuf")
    first = None
    for n_try, mb in enumerate([mb0 if isinstance(mb0, int) and 1 <= mb0 <= 10 ** 7 else 2, 1, 2, 3, 5, 10 ** 6]):
        viol, raised, got = [], None, None
        try:
            chunks = list(CoolerMerger(clrs, mb))
            got = (pd.concat([pd.DataFrame(c) for c in chunks], ignore_index=True) if chunks
                   else pd.DataFrame({"bin1_id": [], "bin2_id": [], "count": []}))
        except Exception as e:
            raised = e
        if raised is not None:
            viol.append(f"merging raised {type(raised).__name__}: {raised}")
        elif not (list(got["bin1_id"]) == list(exp["bin1_id"]) and list(got["bin2_id"]) == list(exp["bin2_id"])
                  and list(got["count"]) == list(exp["count"])):
            viol.append(f"merged stream has {len(got)} records summing to {got['count'].sum()}, expected {len(exp)} summing to {exp['count'].sum()} (sorted group-by-sum of the inputs)")
        r = dict(out, mergebuf_used=mb, raised=None if raised is None else str(raised), violations=viol, violates_contract=bool(viol))
        if first is None:
            first = r
        if viol:
            break
    shutil.rmtree(d, ignore_errors=True)
    return r if viol else first


@custom("cooler._reduce:CoolerCoarsener._aggregate")
def _replay_coarsen_aggregate(inputs, ghost=None):
    """two real coolers (fixed-width and variable-width bins, two chromosomes, every upper-triangle pixel present)
    coarsened by the counter-model's factor (and by 2 and 3): every span's aggregate must be the group-by-sum of
    its fine pixels under  new_id = new_chrom_offset[c] + (fine_id - old_chrom_offset[c]) div k.
    The symbolic table of the counter-model is not rebuilt; its factor and path (fixed / variable) are kept."""
    import os
    import shutil
    import tempfile
    import numpy as np
    import pandas as pd
    import cooler
    from cooler._reduce import CoolerCoarsener
    g = ghost or {}
    k0 = g.get("k")
    ks = ([k0] if isinstance(k0, int) and 2 <= k0 <= 5 else []) + [2, 3]
    fixed = bool(g.get("fixed", True))
    d = tempfile.mkdtemp(prefix="pyvc_agg_")
    if fixed:
        tab = [("a", 10 * i, min(10 * (i + 1), 47)) for i in range(5)] + [("b", 10 * i, min(10 * (i + 1), 23)) for i in range(3)]
    else:
        tab = [("a", 0, 3), ("a", 3, 10), ("a", 10, 11), ("a", 11, 20), ("a", 20, 25), ("b", 0, 7), ("b", 7, 9), ("b", 9, 12)]
    bins = pd.DataFrame(tab, columns=["chrom", "start", "end"])
    n = len(bins)
    rows = [(i, j, 1 + (3 * i + j) % 5) for i in range(n) for j in range(i, n)]
    pix = pd.DataFrame(rows, columns=["bin1_id", "bin2_id", "count"])
    p = os.path.join(d, "src.cool")
    cooler.create_cooler(p, bins, pix)
    old_off = [0, 5, 8]
    out = {"inputs_used": {"path": "fixed" if fixed else "variable", "factors": ks, "bins": tab}}
    viol = []
    for k in ks:
        new_off = [0, -(-5 // k), -(-5 // k) + -(-3 // k)]

        def g_(b):
            c = 0 if b < 5 else 1
            return new_off[c] + (b - old_off[c]) // k
        for chunksize in (1, 4, 10 ** 6):
            try:
                co = CoolerCoarsener(p, k, chunksize, ["count"], None, 1)
                for lo, hi in zip(co.edges[:-1], co.edges[1:]):
                    got = co._aggregate((int(lo), int(hi)))
                    sub = pix.iloc[int(lo):int(hi)]
                    exp = (pd.DataFrame({"bin1_id": [g_(b) for b in sub["bin1_id"]], "bin2_id": [g_(b) for b in sub["bin2_id"]],
                                         "count": list(sub["count"])})
                           .groupby(["bin1_id", "bin2_id"], sort=True)["count"].sum().reset_index())
                    if not (list(got["bin1_id"]) == list(exp["bin1_id"]) and list(got["bin2_id"]) == list(exp["bin2_id"])
                            and list(got["count"]) == list(exp["count"])):
                        viol.append(f"factor {k}, span ({lo},{hi}): aggregate is not the block sum of its fine pixels "
                                    f"(got {len(got)} records summing to {int(got['count'].sum())}, expected {len(exp)} summing to {int(exp['count'].sum())})")
                        break
            except Exception as e:
                viol.append(f"factor {k}, chunksize {chunksize}: {type(e).__name__}: {e}")
            if viol:
                break
        if viol:
            break
    shutil.rmtree(d, ignore_errors=True)
    out.update(raised=None, violations=viol[:3], violates_contract=bool(viol))
    return out


# ---------------------------------------------------------------- api.annotate (C14, C12)
def _replay_annotate(inputs, ghost=None):
    """real pandas frames from the counter-model (pixel columns, pixel index, bin columns, first label), then - because a
    model's arrays are often degenerate - the adapter's own small family for the same configuration (column set, replace,
    whole table / contiguous part): unsorted pixels fewer than bins, duplicates, empty, first > 0.  Judged against the
    property itself: every pixel gets the columns of its own two bins, pixel order / index / other columns kept."""
    import itertools
    import numpy as np
    import pandas as pd
    import cooler
    g = {k: conv(v) for k, v in (ghost or {}).items()}
    replace = bool(conv(inputs.get("replace"))) if inputs.get("replace") is not None else False
    pcols = [c for c in str(g.get("pcols_csv") or "bin1_id,bin2_id,count").split(",") if c]
    whole = bool(g.get("whole", True)) or bool(g.get("selector"))
    BIN = ["chrom", "start", "end", "weight"]
    cases = []

    def arr(x):
        return list(x) if x is not None else None
    try:
        nb, npx = int(g.get("nb")), int(g.get("npx"))
        first = 0 if whole else int(g.get("first"))
        if 0 < nb <= 40 and 0 <= npx <= 40 and first >= 0:
            bins = {c: (arr(g.get("bins." + c)) or [])[:nb] for c in BIN}
            pix = {c: (arr(g.get("pixels." + c)) or [])[:npx] for c in pcols}
            pidx = (arr(g.get("pixels.index")) or [])[:npx]
            ok = all(len(a) == nb for a in bins.values()) and all(len(a) == npx for a in pix.values()) and len(pidx) == npx
            ok = ok and all(first <= int(x) < first + nb for c in ("bin1_id", "bin2_id") if c in pix for x in pix[c])
            if ok:
                cases.append(("counter-model", first, bins, pix, pidx))
    except Exception:
        pass
    rng = np.random.RandomState(7)
    for nb, first in ((6, 0), (7, 3)):
        if whole and first:
            continue
        bins = {"chrom": [k // 3 for k in range(nb)], "start": [10 * k for k in range(nb)], "end": [10 * k + 10 for k in range(nb)],
                "weight": [100 + k for k in range(nb)]}
        for ids in ([], [first + nb - 1, first], [first + 2, first + 4, first + 1], [first + 3] * 2 + [first + 1],
                    list(range(first, first + nb)) * 2, [first + 1, first + 1, first + 5, first + 2]):
            n = len(ids)
            pix = {}
            for c in pcols:
                if c == "bin1_id":
                    pix[c] = list(ids)
                elif c == "bin2_id":
                    pix[c] = list(reversed(ids)) if n % 2 else [ids[(k + 1) % n] for k in range(n)] if n else []
                else:
                    pix[c] = [int(x) for x in rng.randint(1, 50, n)]
            cases.append((f"family nb={nb} first={first} ids={ids}", first, bins, pix, [1000 + 3 * k for k in range(n)]))
    viol, tried = [], 0
    for label, first, bins, pix, pidx in cases:
        tried += 1
        nb = len(bins["start"])
        bdf = pd.DataFrame({c: np.asarray(bins[c], dtype=np.int64) for c in BIN}, index=pd.RangeIndex(first, first + nb))
        pdf = pd.DataFrame({c: np.asarray(pix[c], dtype=np.int64) for c in pcols}, index=pd.Index(np.asarray(pidx, dtype=np.int64)))
        barg = bdf.copy()
        if g.get("selector"):
            from cooler.core import RangeSelector1D
            barg = RangeSelector1D(None, (lambda fields, lo, hi, bdf=bdf: bdf.iloc[lo:hi]), None, len(bdf))
        try:
            out = cooler.annotate(pdf.copy(), barg, replace=replace)
        except Exception as e:
            viol.append(f"[{label}] annotate raised {type(e).__name__}: {e}")
            continue
        want_cols = []
        for idc, suf in (("bin1_id", "1"), ("bin2_id", "2")):
            if idc in pcols:
                want_cols += [c + suf for c in BIN]
        kept = [c for c in pcols if not (replace and c in ("bin1_id", "bin2_id"))]
        if list(out.columns) != want_cols + kept:
            viol.append(f"[{label}] columns {list(out.columns)}, expected {want_cols + kept}")
            continue
        if len(out) != len(pdf) or list(out.index) != list(pdf.index):
            viol.append(f"[{label}] index/length changed: {list(out.index)[:6]} vs {list(pdf.index)[:6]}")
            continue
        for idc, suf in (("bin1_id", "1"), ("bin2_id", "2")):
            if idc not in pcols:
                continue
            for c in BIN:
                exp = [bins[c][int(i) - first] for i in pix[idc]]
                got = [int(x) for x in out[c + suf].to_numpy()]
                if got != [int(x) for x in exp]:
                    viol.append(f"[{label}] column {c + suf} = {got[:6]}, bins of the pixels have {exp[:6]} (pixels {idc} = {pix[idc][:6]})")
                    break
        for c in kept:
            if [int(x) for x in out[c].to_numpy()] != [int(x) for x in pix[c]]:
                viol.append(f"[{label}] pixel column {c} changed")
    return {"inputs_used": {"replace": replace, "pixel_columns": pcols, "whole_table": whole, "cases_tried": tried},
            "returned": None, "violations": viol[:6], "violates_contract": bool(viol)}


CUSTOM["cooler.api:annotate"] = _replay_annotate


# ---------------------------------------------------------------- create_from_unordered (C06, C01)
def _replay_create_from_unordered(inputs, ghost=None):
    """the real function on real files: the counter-model's (number of chunks, max_merge) when small, then the adapter's own
    family of chunk counts x max_merge x buffer sizes; judged against the property itself - the result equals the in-memory
    group-by sum of all records, for every chunk count and merge plan."""
    import os
    import shutil
    import tempfile
    import numpy as np
    import pandas as pd
    import cooler
    from cooler.create import create_from_unordered
    g = {k: conv(v) for k, v in (ghost or {}).items()}
    fam = []
    try:
        n, mm = int(g.get("r_n")), int(g.get("r_max_merge"))
        if 0 < n <= 40:
            fam.append((n, mm))
    except Exception:
        pass
    fam += [(n, mm) for mm in (2, 3, 200) for n in (1, 2, 3, 5, 7, 10, 11)]
    nb = 6
    bins = pd.DataFrame({"chrom": ["a"] * 3 + ["b"] * 3, "start": [0, 10, 20] * 2, "end": [10, 20, 30] * 2})
    viol, tried = [], 0
    d = tempfile.mkdtemp(prefix="pyvc_unord_")
    rng = np.random.RandomState(11)
    try:
        for n, mm in fam:
            tried += 1
            chunks = []
            for i in range(n):
                k = 1 + (i % 3)
                b1 = rng.randint(0, nb, k)
                b2 = rng.randint(0, nb, k)
                lo, hi = np.minimum(b1, b2), np.maximum(b1, b2)
                df = pd.DataFrame({"bin1_id": lo, "bin2_id": hi, "count": rng.randint(1, 9, k)})
                df = df.groupby(["bin1_id", "bin2_id"], as_index=False)["count"].sum().sort_values(["bin1_id", "bin2_id"])
                chunks.append(df)
            want = pd.concat(chunks).groupby(["bin1_id", "bin2_id"], as_index=False)["count"].sum().sort_values(["bin1_id", "bin2_id"])
            p = os.path.join(d, f"u_{n}_{mm}.cool")
            try:
                create_from_unordered(p, bins, iter(chunks), mergebuf=4, max_merge=mm, temp_dir=d)
                got = cooler.Cooler(p).pixels()[:]
            except Exception as e:
                viol.append(f"n_chunks={n} max_merge={mm}: raised {type(e).__name__}: {e}")
                continue
            a = [tuple(int(x) for x in r) for r in got[["bin1_id", "bin2_id", "count"]].to_numpy()]
            b = [tuple(int(x) for x in r) for r in want[["bin1_id", "bin2_id", "count"]].to_numpy()]
            if a != b:
                viol.append(f"n_chunks={n} max_merge={mm}: {len(a)} pixels / total {sum(x[2] for x in a)} stored, "
                            f"in-memory aggregate has {len(b)} pixels / total {sum(x[2] for x in b)}")
            left = [f for f in os.listdir(d) if f.endswith(".multi.cool")]
            if left:
                viol.append(f"n_chunks={n} max_merge={mm}: temporary files left behind: {left[:2]}")
    finally:
        shutil.rmtree(d, ignore_errors=True)
    return {"inputs_used": {"family": "chunk counts x max_merge, mergebuf=4", "cases_tried": tried}, "returned": None,
            "violations": viol[:6], "violates_contract": bool(viol)}


CUSTOM["cooler.create._create:create_from_unordered"] = _replay_create_from_unordered

# ---------------------------------------------------------------- fileops listing functions over real files (C15, C17, C09)
_LIST_SHAPES = {
    "nested": (["/a", "/a/chroms", "/a/inner", "/a/inner/deep", "/b"], ["/a/chroms/name", "/data"]),
    "empty": ([], []),
    "mcool": (["/resolutions", "/resolutions/1000", "/resolutions/5000"], []),
    "scool": (["/chroms", "/bins", "/cells", "/cells/7", "/cells/control", "/cells/10b"], []),
}


def _replay_listing(fn_name):
    """real HDF5 files with the ghost tree's shape: first the counter-model's format attributes, then every assignment of
    {cooler magic, mcool/scool magic on the root, something else, no attribute} the adapter enumerates for that shape (at most
    200 files); the real function is judged against the property: listed = exactly the groups carrying the cooler format."""
    def run(inputs, ghost=None):
        import itertools
        import os
        import shutil
        import tempfile
        import h5py
        import numpy as np
        from cooler import fileops
        from cooler.util import natsorted
        g = {k: conv(v) for k, v in (ghost or {}).items()}
        shape = g.get("shape") or "nested"
        groups, dsets = _LIST_SHAPES.get(shape, _LIST_SHAPES["nested"])
        allg = ["/"] + groups
        MAG, SC, MC = "HDF5::Cooler", "HDF5::SCOOL", "HDF5::MCOOL"
        cases = []
        model = {p: g.get("fmt:" + p) for p in allg}
        if any(isinstance(x, str) for x in model.values()):
            cases.append(("counter-model", {p: (x if isinstance(x, str) and x else None) for p, x in model.items()}))
        rootopts = [MAG, None] + ([SC] if shape == "scool" else []) + ([MC] if shape == "mcool" else [])
        import random
        combos = list(itertools.product(rootopts, *[[MAG, "other", None]] * len(groups)))
        random.Random(5).shuffle(combos)
        special = SC if shape == "scool" else MC if shape == "mcool" else MAG
        front = [tuple([special] + [MAG] * len(groups)),
                 tuple([special] + [MAG if (gp.startswith("/cells/") or gp.startswith("/resolutions/")) else None for gp in groups]),
                 tuple([MAG] + [MAG] * len(groups))]
        for k, c in enumerate(front + combos[:200]):
            cases.append((f"assignment#{k}", dict(zip(allg, c))))
        d = tempfile.mkdtemp(prefix="pyvc_list_")
        viol, tried = [], 0
        try:
            for label, fmts in cases:
                tried += 1
                p = os.path.join(d, f"t{tried}.h5")
                with h5py.File(p, "w") as f:
                    for gp in groups:
                        f.require_group(gp)
                    for ds in dsets:
                        f.create_dataset(ds, data=np.arange(3))
                    for gp, fm in fmts.items():
                        if fm is not None:
                            f[gp].attrs["format"] = fm
                colls = [gp for gp in allg if fmts.get(gp) == MAG]
                try:
                    if fn_name == "list_coolers":
                        got, want = fileops.list_coolers(p), natsorted(colls)
                    elif fn_name == "is_multires_file":
                        first = "/resolutions/1000"
                        got = fileops.is_multires_file(p)
                        want = shape == "mcool" and fmts.get("/") == MC and fmts.get(first) == MAG
                    elif fn_name == "is_scool_file":
                        cells = [gp for gp in groups if gp.startswith("/cells/")]
                        got = fileops.is_scool_file(p)
                        want = shape == "scool" and fmts.get("/") == SC and all(fmts.get(c) == MAG for c in cells) and bool(cells)
                    else:
                        cells = [gp for gp in groups if gp.startswith("/cells/")]
                        is_sc = shape == "scool" and fmts.get("/") == SC and all(fmts.get(c) == MAG for c in cells) and bool(cells)
                        try:
                            got = fileops.list_scool_cells(p)
                        except OSError:
                            got = "OSError"
                        want = natsorted([c for c in colls if c != "/"]) if is_sc else "OSError"
                except Exception as e:
                    viol.append(f"[{label}] {fn_name} raised {type(e).__name__}: {e} (formats {fmts})")
                    continue
                if got != want:
                    viol.append(f"[{label}] {fn_name} -> {got}, expected {want} (formats {fmts})")
                if len(viol) >= 6:
                    break
        finally:
            shutil.rmtree(d, ignore_errors=True)
        return {"inputs_used": {"tree": shape, "files_tried": tried}, "returned": None, "violations": viol[:6], "violates_contract": bool(viol)}
    return run


for _fn in ("list_coolers", "list_scool_cells", "is_scool_file", "is_multires_file"):
    CUSTOM["cooler.fileops:" + _fn] = _replay_listing(_fn)


# ---------------------------------------------------------------- ArrayLoader.__iter__ (C01)
def _replay_arrayloader(inputs, ghost=None):
    """the real loader on a family of small dense matrices (zeros, diagonal-only, full, asymmetric, empty rows, all-zero row
    spans) x every chunk size 1..n+1; judged against the property: the chunks together list exactly the non-zero cells of the
    upper triangle, each once, in row-major order, with its value, and each chunk only rows of its own span"""
    import numpy as np
    import pandas as pd
    from cooler.create import ArrayLoader
    rng = np.random.RandomState(3)
    mats = [np.zeros((0, 0), int), np.zeros((3, 3), int), np.diag([1, 2, 3, 4]), np.arange(1, 17).reshape(4, 4)]
    for n in (5, 6):
        a = rng.randint(0, 4, (n, n)) * (rng.rand(n, n) < 0.5)
        a[2, :] = 0
        mats.append(a)
    b = np.zeros((6, 6), int)
    b[4, 5] = 7
    b[0, 0] = 1
    mats.append(b)
    viol, tried = [], 0
    for A in mats:
        n = A.shape[0]
        bins = pd.DataFrame({"chrom": ["c"] * n, "start": list(range(n)), "end": list(range(1, n + 1))})
        want = [(r, c, int(A[r, c])) for r in range(n) for c in range(r, n) if A[r, c] != 0]
        for cs in range(1, n + 2):
            tried += 1
            try:
                chunks = list(ArrayLoader(bins, A, cs))
            except Exception as e:
                viol.append(f"n={n} chunksize={cs}: raised {type(e).__name__}: {e}")
                continue
            got = [(int(x), int(y), int(z)) for ch in chunks for x, y, z in zip(ch["bin1_id"], ch["bin2_id"], ch["count"])]
            if got != want:
                viol.append(f"n={n} chunksize={cs} matrix={A.tolist()}: loader lists {got[:8]}, the non-zero upper cells are {want[:8]}")
            for k, ch in enumerate(chunks):
                rows = [int(x) for x in ch["bin1_id"]]
                if any(not (k * cs <= r < (k + 1) * cs) for r in rows):
                    viol.append(f"n={n} chunksize={cs}: chunk {k} holds rows {sorted(set(rows))}")
            if len(viol) >= 6:
                break
    return {"inputs_used": {"family": "7 small matrices x every chunk size", "cases_tried": tried}, "returned": None,
            "violations": viol[:6], "violates_contract": bool(viol)}


CUSTOM["cooler.create._ingest:ArrayLoader.__iter__"] = _replay_arrayloader
