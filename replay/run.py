"""Replayer (runs under /venv/bin/python): take the concretised inputs of a
refuted obligation, call the REAL function of the repository and evaluate the
contract's executable clauses on what it did."""
import json
import os
import sys
import traceback

ROOT = os.path.dirname(os.path.dirname(os.path.abspath(__file__)))


def main():
    req = json.loads(sys.stdin.read())
    repo = req.get("repo", "/repo")
    sys.path.insert(0, os.path.join(repo, "src"))
    sys.path.insert(1, ROOT)
    from replay import adapters
    out = {"target": req["target"]}
    try:
        out.update(adapters.replay(req["target"], req["inputs"], req.get("ghost")))
    except Exception as e:
        out["adapter_error"] = f"{type(e).__name__}: {e}"
        out["trace"] = traceback.format_exc(limit=5)
    print(json.dumps(out, default=str))


if __name__ == "__main__":
    main()
