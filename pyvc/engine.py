"""pyvc: a verification-condition generator for (a subset of) Python.

The executor re-reads the real source under /repo with ``ast`` on every run,
symbolically executes the body of a function under contract path by path, and
emits named proof obligations (z3 formulas).  Nothing is transcribed: the
statements executed are the statements in the repository's working tree.

What extraction drops (exactly): decorators, type annotations, docstrings,
calls on ``logger.*`` and ``warnings.warn`` (no-ops).  Anything the executor
does not implement raises ``Unsupported`` -> checker error, never "proved".
"""
from __future__ import annotations

import ast
import os

import z3

from . import spec
from .values import *  # noqa: F401,F403
from .values import (Arr, BoundMethod, BreakEx, ClassInfo, Closure, Composed,
                     ConcatList, ContinueEx, DTypeV, EnumV, ExcClass, ExcVal,
                     GenV, LibFunc, LibNS, MissingContract, Obj, Opaque, Partial,
                     PathEnd, PyRaise, Quot, RangeV, RealV, ReturnEx, SegList,
                     SliceV, SymList, SymMap, Unsupported, ZipV, exc_is, is_z3,
                     to_term)

REPO = os.environ.get("VERIF_REPO", "/repo")
SRC = os.path.join(REPO, "src")

spec.symbolic_mode(True)


# ------------------------------------------------------------------ obligations
class Obligation:

    def __init__(self, name, kind, hyps, goal, func, path_id, lineno=None,
                 expect_sat=False, note=""):
        self.name = name
        self.kind = kind
        self.hyps = list(hyps)
        self.goal = goal
        self.func = func
        self.path_id = path_id
        self.lineno = lineno
        self.expect_sat = expect_sat  # cover obligations: hyps /\ goal must be SAT
        self.note = note


# ------------------------------------------------------------------ environments
class Env:
    def __init__(self, parent=None, vars=None):
        self.parent = parent
        self.vars = dict(vars or {})

    def lookup(self, name):
        e = self
        while e is not None:
            if name in e.vars:
                return e.vars[name]
            e = e.parent
        raise KeyError(name)

    def has(self, name):
        try:
            self.lookup(name)
            return True
        except KeyError:
            return False

    def set(self, name, value):
        self.vars[name] = value


class ModuleInfo:
    def __init__(self, name, path, tree):
        self.name = name
        self.path = path
        self.tree = tree
        self.env = None
        self.source_lines = None


# ------------------------------------------------------------------ path state
class Path:
    """one execution path: facts + decisions; re-execution based forking"""

    def __init__(self, engine, decisions, func_label):
        self.engine = engine
        self.decisions = list(decisions)
        self.cursor = 0
        self.facts = []
        self.obls = []
        self.counter = {}
        self.func_label = func_label
        self.solver = z3.Solver()
        self.solver.set("timeout", engine.feas_timeout_ms)
        self.ordinals = {}
        self.assumptions_used = set()
        self.ghost = {}
        self.covers = []

    def path_id(self):
        return "".join("T" if d else "F" for d in self.decisions[: self.cursor])

    def fresh_name(self, base):
        c = self.counter.get(base, 0)
        self.counter[base] = c + 1
        return f"{base}!{c}" if c else base

    def fresh_int(self, base="v"):
        return z3.Int(self.fresh_name(base))

    def fresh_bool(self, base="b"):
        return z3.Bool(self.fresh_name(base))

    def fresh_real(self, base="r"):
        return z3.Real(self.fresh_name(base))

    def fresh_str(self, base="s"):
        return z3.String(self.fresh_name(base))

    def fresh_arr(self, base="a", kind="int", n=None, dtype=None):
        nm = self.fresh_name(base)
        f = z3.Function(nm, z3.IntSort(), SORTS[kind])
        if n is None:
            n = z3.Int(nm + ".n")
            self.assume(n >= 0)
        a = Arr(n, lambda k, f=f: f(k), kind, dtype=dtype, name=nm)
        a._init_at = a.at      # contents at creation (in-place stores replace .at; replay needs the input)
        return a

    def assume(self, fact):
        if fact is True:
            return
        if fact is False:
            fact = z3.BoolVal(False)
        if isinstance(fact, (list, tuple)):
            for f in fact:
                self.assume(f)
            return
        self.facts.append(fact)
        if not _has_quant(fact):
            self.solver.add(fact)

    def feasible(self, cond):
        self.solver.push()
        self.solver.add(cond)
        r = self.solver.check()
        self.solver.pop()
        return r != z3.unsat

    def branch(self, cond):
        """decide a symbolic condition on this path (forks by re-execution)"""
        if isinstance(cond, bool):
            return cond
        cond = z3.simplify(cond)
        if z3.is_true(cond):
            return True
        if z3.is_false(cond):
            return False
        if self.cursor < len(self.decisions):
            d = self.decisions[self.cursor]
        else:
            t = self.feasible(cond)
            f = self.feasible(z3.Not(cond))
            if t and f:
                self.engine.worklist.append(self.decisions + [False])
                d = True
            elif t:
                d = True
            elif f:
                d = False
            else:
                raise PathEnd()
            self.decisions.append(d)
        self.cursor += 1
        self.assume(cond if d else z3.Not(cond))
        return d

    def implied(self, goal, timeout_ms=1500):
        """quick in-process proof attempt of ``goal`` from the path facts (with a few rounds of
        instantiated quantified facts); used only to SIMPLIFY encodings (both the simplified and
        the unsimplified encoding are exact under the facts)"""
        from . import solve
        try:
            ground, quants = solve.classify(self.facts)
            neg = z3.Not(goal)
            s = z3.Solver()
            s.set("timeout", 400)
            for h in ground:
                s.add(h)
            s.add(neg)
            if s.check() == z3.unsat:
                return True
            ins = solve.Instantiator(ground, quants, neg)
            for _ in range(2):
                new = ins.round()
                for c in new:
                    s.add(c)
                s.set("timeout", timeout_ms)
                if new and s.check() == z3.unsat:
                    return True
                if ins.finished:
                    break
            return False
        except Exception:
            return False

    def ordinal(self, key):
        c = self.ordinals.get(key, 0)
        self.ordinals[key] = c + 1
        return c

    def oblige(self, kind, detail, goal, lineno=None, note=""):
        """emit a proof obligation: facts ==> goal"""
        if goal is True:
            return
        if isinstance(goal, (list, tuple)):
            for i, g in enumerate(goal):
                self.oblige(kind, f"{detail}.{i}", g, lineno, note)
            return
        if goal is False:
            goal = z3.BoolVal(False)
        name = f"{self.func_label}#{kind}" + (f":{detail}" if detail else "")
        o = Obligation(name, kind, self.facts, goal, self.func_label, self.path_id(), lineno, note=note)
        o.args = getattr(self, "args", None)
        o.ghost = self.ghost
        self.obls.append(o)

    def cover(self, detail, cond=True):
        name = f"{self.func_label}#cover:{detail}"
        if cond is True:
            cond = z3.BoolVal(True)
        self.obls.append(Obligation(name, "cover", self.facts, cond, self.func_label,
                                    self.path_id(), expect_sat=True))


def _select(terms, k):
    """terms[k] for a concrete list of terms and a symbolic index"""
    out = to_term(terms[-1])
    for i in range(len(terms) - 2, -1, -1):
        out = z3.If(k == i, to_term(terms[i]), out)
    return out


def _has_quant(e):
    seen = set()
    stack = [e]
    while stack:
        t = stack.pop()
        if t.get_id() in seen:
            continue
        seen.add(t.get_id())
        if z3.is_quantifier(t):
            return True
        stack.extend(t.children())
    return False


SORTS = {
    "int": z3.IntSort(),
    "bool": z3.BoolSort(),
    "real": z3.RealSort(),
    "str": z3.StringSort(),
}


# ------------------------------------------------------------------ contracts
class Contract:
    """sidecar contract for one function of the repository.

    Subclass attributes / methods (all optional except ``target``):
      target   = "cooler.util:parse_region"     (module:qualname)
      props    = ["C04", ...]
      inline   = True  -> call sites execute the body instead of using the contract
      configs(v)       -> iterable of (label, kwargs) symbolic argument shapes
      requires(**a)    -> list / dict of conditions over the arguments
      ensures(result, **a) -> dict name -> condition          (normal return)
      raises           = dict ExcName -> fn(**a) -> condition  (exact when
                         ``raises_exact``; else "may raise only then")
      result(v, **a)   -> fresh symbolic result for call sites (modular use)
      loops            = {ordinal: LoopSpec}
    """
    target = None
    props = ()
    inline = False
    loops = {}
    raises = {}
    raises_exact = True
    trusted = False  # assumed (not verified) contract on a repo function

    def configs(self, v):
        return []

    def requires(self, **a):
        return []

    def ensures(self, result, **a):
        return {}

    def result(self, v, **a):
        raise MissingContract(f"{self.target}: contract has no result shape for modular use")

    def effects(self, v, **a):
        """side effects on arguments at modular call sites (frame): default none"""
        return None


class LoopSpec:
    """invariant of one loop, keyed by the ordinal of the loop in the function.

    inv(S) -> dict name -> condition ; S gives locals by attribute/name and
    ``S.it`` (number of completed iterations as an index term into the
    iterable, i.e. for ``range(a,b)``: the current value of the loop variable)
    havoc   : optional dict var -> shape factory (v) for variables first
              assigned inside the loop and used after it
    variant(S) -> integer term that decreases (while loops)
    """

    def __init__(self, inv, havoc=None, variant=None, unroll=None, prepare=None,
                 ghost_init=None, ghost_step=None):
        self.inv = inv
        self.havoc = havoc or {}
        self.variant = variant
        self.unroll = unroll
        self.prepare = prepare          # prepare(S, I): coerce pre-loop state (e.g. [] -> ConcatList)
        self.ghost_init = ghost_init    # ghost_init(S, I) -> {name: value}
        self.ghost_step = ghost_step    # ghost_step(S, I): update ghost state at the end of an iteration


REGISTRY = {}


def contract(cls):
    inst = cls()
    assert inst.target, cls
    REGISTRY[inst.target] = inst
    return cls


class State:
    """view of the local variables handed to invariants"""

    def __init__(self, env, extra=None):
        object.__setattr__(self, "_env", env)
        object.__setattr__(self, "_extra", extra or {})

    def __getattr__(self, name):
        ex = object.__getattribute__(self, "_extra")
        if name in ex:
            return ex[name]
        env = object.__getattribute__(self, "_env")
        try:
            return env.lookup(name)
        except KeyError:
            try:
                return env.lookup("__g_" + name)
            except KeyError:
                raise AttributeError(name)

    def set_ghost(self, name, value):
        object.__getattribute__(self, "_env").set("__g_" + name, value)

    def set_local(self, name, value):
        object.__getattribute__(self, "_env").set(name, value)

    def __getitem__(self, name):
        return getattr(self, name)


# ------------------------------------------------------------------ the engine
class Engine:
    def __init__(self, feas_timeout_ms=2000, max_paths=4000):
        self.modules = {}
        self.worklist = []
        self.feas_timeout_ms = feas_timeout_ms
        self.max_paths = max_paths
        self.lib = {}
        self.builtins = {}
        self.assumptions = set()
        self.functions_seen = set()
        self.auto_inlined = set()
        from . import lib_builtin
        lib_builtin.install(self)
        try:
            from . import lib_numpy
            lib_numpy.install(self)
        except ImportError:
            pass
        from . import strings as _strings
        _strings.install_re(self)
        for extra in ("lib_pandas", "lib_h5py", "lib_misc"):
            try:
                mod = __import__(f"pyvc.{extra}", fromlist=["install"])
                mod.install(self)
            except ImportError:
                pass

    # ---- module loading (from /repo, every run)
    def module(self, name) -> ModuleInfo:
        if name in self.modules:
            return self.modules[name]
        rel = name.replace(".", "/")
        for cand in (os.path.join(SRC, rel + ".py"), os.path.join(SRC, rel, "__init__.py")):
            if os.path.exists(cand):
                path = cand
                break
        else:
            raise Unsupported(f"module {name} not found under {SRC}")
        with open(path) as fh:
            src = fh.read()
        tree = ast.parse(src, filename=path)
        mi = ModuleInfo(name, path, tree)
        mi.source_lines = src.splitlines()
        self.modules[name] = mi
        mi.env = Env(Env(None, self.builtins))
        self._load_toplevel(mi)
        return mi

    def _load_toplevel(self, mi):
        interp = Interp(self, Path(self, [], f"{mi.name}:<module>"), mi)
        for node in mi.tree.body:
            try:
                if isinstance(node, (ast.FunctionDef, ast.ClassDef, ast.Import,
                                     ast.ImportFrom, ast.Assign, ast.AnnAssign)):
                    interp.exec_stmt(node, mi.env)
                elif isinstance(node, ast.Expr):
                    pass  # docstring
                elif isinstance(node, ast.If):
                    pass  # TYPE_CHECKING etc.
            except (Unsupported, PyRaise, PathEnd, KeyError, AttributeError, TypeError) as e:
                # leave names unbound; use will raise Unsupported with the reason
                for n in _assigned_names([node]):
                    mi.env.set(n, Opaque(f"unevaluated module-level {n}: {e}"))

    def find_function(self, target):
        modname, qual = target.split(":")
        mi = self.module(modname)
        parts = qual.split(".")
        val = mi.env.lookup(parts[0])
        for p in parts[1:]:
            if isinstance(val, ClassInfo):
                m = val.lookup(p)
                if m is None:
                    raise Unsupported(f"{target}: no member {p}")
                val = m
            elif isinstance(val, Closure):
                # nested function: find the def inside the body
                found = None
                for n in ast.walk(val.node):
                    if isinstance(n, ast.FunctionDef) and n.name == p and n is not val.node:
                        found = n
                        break
                if found is None:
                    raise Unsupported(f"{target}: nested def {p} not found")
                # sibling helper functions defined in the same enclosing function are visible to the nested function (an
                # extract-helper refactoring inside the enclosing function must not stop the check); other locals of the
                # enclosing function are free variables the contract supplies
                env2 = Env(val.env)
                for st in val.node.body:
                    if isinstance(st, ast.FunctionDef) and st is not found:
                        sib = Closure(st, env2, mi, f"{parts[0]}.{st.name}", None)
                        sib.allow_inline = True
                        env2.set(st.name, sib)
                val = Closure(found, env2, mi, qual, None)
            else:
                raise Unsupported(f"{target}: cannot resolve {p}")
        if not isinstance(val, Closure):
            raise Unsupported(f"{target} is not a function")
        return val

    # ---- verifying one function against its contract
    def verify(self, target, source_override=None):
        """returns (obligations, stats) for every path of every config"""
        c = REGISTRY[target]
        fn = self.find_function(target)
        self.functions_seen.add(target)
        all_obls = []
        stats = {"paths": 0, "configs": 0}
        label_base = target.split(".", 1)[1] if target.startswith("cooler.") else target
        for cfg_label, mk in self._configs(c):
            stats["configs"] += 1
            self.worklist = [[]]
            npaths = 0
            while self.worklist:
                decisions = self.worklist.pop()
                npaths += 1
                if npaths > self.max_paths:
                    raise Unsupported(f"{target}: more than {self.max_paths} paths")
                func_label = label_base + (f"[{cfg_label}]" if cfg_label else "")
                path = Path(self, decisions, func_label)
                interp = Interp(self, path, fn.module)
                try:
                    self._run_path(interp, path, c, fn, mk)
                except PathEnd:
                    pass
                all_obls.extend(path.obls)
                self.assumptions |= path.assumptions_used
            stats["paths"] += npaths
        # lemmas over the contract alone (no code): hypotheses are the contract's clauses
        lem = getattr(c, "lemmas", None)
        if lem is not None:
            path = Path(self, [], label_base)
            lem(path, Vocab(path))
            all_obls.extend(path.obls)
            self.assumptions |= path.assumptions_used
        return all_obls, stats

    def _configs(self, c):
        cfgs = list(c.configs(V))
        if not cfgs:
            raise Unsupported(f"{c.target}: contract gives no argument shapes")
        return cfgs

    def _run_path(self, interp, path, c, fn, mk):
        v = Vocab(path)
        args = mk(v) if callable(mk) else mk
        args = dict(args)
        ghost = args.pop("__ghost__", None)
        if ghost:
            path.ghost.update(ghost)
        free = args.pop("__free__", None)
        if free:
            # free variables of a nested function under contract (closure environment)
            fn = Closure(fn.node, Env(fn.env, dict(free)), fn.module, fn.qualname, fn.cls)
            fn.allow_inline = True
            path.ghost["__free__"] = dict(free)
        call_args = dict(args)
        path.args = dict(call_args)
        args = _cargs(args)
        c._v = v
        req = c.requires(**args)
        for nm, cond in _named(req):
            path.assume(cond)
        if not path.feasible(z3.BoolVal(True)):
            # vacuity guard: the precondition itself must be satisfiable
            path.oblige("vacuous-pre", "", z3.BoolVal(False))
            raise PathEnd()
        path.cover("pre")
        c._I = interp
        interp.contract = c
        interp.top_fn = fn
        # run
        try:
            pos = []
            fa = fn.node.args
            if fa.vararg is not None and isinstance(call_args.get(fa.vararg.arg), tuple):
                # a config entry named like *args supplies the extra positional arguments ...
                call_args = dict(call_args)
                extra = call_args.pop(fa.vararg.arg)
                names = [p.arg for p in fa.posonlyargs + fa.args]
                pos = [call_args.pop(nm) for nm in names] + list(extra)
            if fa.kwarg is not None and isinstance(call_args.get(fa.kwarg.arg), dict):
                # ... and one named like **kwargs the extra keyword arguments
                call_args = dict(call_args)
                call_args.update(call_args.pop(fa.kwarg.arg))
            result = interp.call_closure(fn, pos, call_args, top=True)
        except PyRaise as pr:
            self._check_raise(path, c, args, pr.exc)
            return
        # normal return: postconditions
        # a function that must raise under some condition must not return then
        must = getattr(c, "must_raise", None)
        if must is None and c.raises_exact:
            must = c.raises
        for exc_name, condfn in (must or {}).items():
            cond = condfn(**args)
            path.oblige("raises", f"{exc_name}-missed", spec.Not(cond))
        gf = getattr(c, "ghost_final", None)
        if gf is not None and interp.top_env is not None:
            for gn, gv in gf(interp, State(interp.top_env, {}), result).items():
                interp.top_env.set("__g_" + gn, gv)
        ens = _call_ensures(c, result, args, interp.top_env)
        for nm, cond in _named(ens):
            if nm.startswith("by-lemma:"):
                # instance of a lemma that is proved separately (its obligations are in the census);
                # the induction principle behind it is in the trusted base
                path.assume(cond)
                path.assumptions_used.add("instance of lemma " + nm[9:].split("@")[0] + " (proved separately by induction)")
            elif nm.startswith("hint:"):
                # intermediate lemma: proved from what is known so far, then available to the later clauses
                path.oblige("hint", nm[5:], cond)
                path.assume(cond)
            else:
                # a postcondition decided by evaluation on this path (concrete True) is still named in the census
                path.oblige("post", nm, z3.BoolVal(True) if cond is True else cond)

    def _check_raise(self, path, c, args, exc):
        matched = False
        for exc_name, condfn in c.raises.items():
            if exc_is(exc.cls, exc_name):
                matched = True
                cond = condfn(**args)
                path.cover(f"raises-{exc_name}")
                path.oblige("raises", f"{exc_name}-allowed", cond)
                exf = getattr(c, "ensures_raise", None)
                if exf is not None:
                    for nm, cond2 in _named(exf(exc, **args)):
                        path.oblige("post-exc", nm, cond2)
                break
        if not matched:
            path.oblige("raises", f"never-{exc.cls}", z3.BoolVal(False),
                        note=f"{exc.cls}{exc.args!r} is not in the contract's raises")


def _call_ensures(c, result, args, env):
    import inspect
    params = inspect.signature(c.ensures).parameters
    if "ghost" in params:
        g = {}
        if env is not None:
            for k, v in env.vars.items():
                if k.startswith("__g_"):
                    g[k[4:]] = v
            g["__locals__"] = env.vars
        return c.ensures(result, ghost=g, **args)
    return c.ensures(result, **args)


def _cargs(d):
    """program argument names -> contract argument names (self -> self_)"""
    return {("self_" if k == "self" else k): v for k, v in d.items()}


def _named(x):
    if x is None:
        return []
    if isinstance(x, dict):
        return list(x.items())
    if isinstance(x, (list, tuple)):
        return [(str(i), c) for i, c in enumerate(x)]
    return [("", x)]


def _assigned_names(stmts):
    out = []

    class V_(ast.NodeVisitor):
        def visit_Name(self, n):
            if isinstance(n.ctx, (ast.Store, ast.Del)):
                if n.id not in out:
                    out.append(n.id)

        def visit_FunctionDef(self, n):
            if n.name not in out:
                out.append(n.name)

        def visit_ClassDef(self, n):
            if n.name not in out:
                out.append(n.name)

        def visit_Lambda(self, n):
            pass

        def visit_ListComp(self, n):
            pass

        def visit_GeneratorExp(self, n):
            pass

        def visit_DictComp(self, n):
            pass

        def visit_SetComp(self, n):
            pass

        def visit_Import(self, n):
            for a in n.names:
                nm = (a.asname or a.name).split(".")[0]
                if nm not in out:
                    out.append(nm)

        visit_ImportFrom = visit_Import

    for s in stmts:
        V_().visit(s)
    return out


def _mutated_names(stmts):
    """names whose object is mutated in place (x.append(..), x[i] = .., x.attr = ..)"""
    out = []
    for s in stmts:
        for n in ast.walk(s):
            if isinstance(n, (ast.Assign, ast.AugAssign)):
                tgts = n.targets if isinstance(n, ast.Assign) else [n.target]
                for t in tgts:
                    for tt in ast.walk(t):
                        if isinstance(tt, (ast.Subscript, ast.Attribute)) and isinstance(tt.ctx, ast.Store):
                            b = tt.value
                            while isinstance(b, (ast.Subscript, ast.Attribute)):
                                b = b.value
                            if isinstance(b, ast.Name) and b.id not in out:
                                out.append(b.id)
            elif isinstance(n, ast.Call) and isinstance(n.func, ast.Attribute):
                if n.func.attr in ("append", "extend", "update", "add", "pop", "insert",
                                   "remove", "clear", "setdefault", "sort"):
                    b = n.func.value
                    while isinstance(b, (ast.Subscript, ast.Attribute)):
                        b = b.value
                    if isinstance(b, ast.Name) and b.id not in out:
                        out.append(b.id)
    return out


def _contains_yield(node):
    for n in ast.iter_child_nodes(node):
        if isinstance(n, (ast.FunctionDef, ast.Lambda, ast.ClassDef)):
            continue
        if isinstance(n, (ast.Yield, ast.YieldFrom)):
            return True
        if _contains_yield(n):
            return True
    return False


_LOCALS_CACHE = {}


def _assigned_locals(fnode):
    """names bound by assignment / for / with / except-as / import / def in the function's own body (not nested functions)"""
    key = id(fnode)
    if key in _LOCALS_CACHE:
        return _LOCALS_CACHE[key]
    names = set()

    def walk(n, top=False):
        if not top and isinstance(n, (ast.FunctionDef, ast.AsyncFunctionDef, ast.ClassDef)):
            names.add(n.name)
            return
        if isinstance(n, ast.Lambda) or isinstance(n, (ast.ListComp, ast.SetComp, ast.DictComp, ast.GeneratorExp)):
            return
        if isinstance(n, ast.Name) and isinstance(n.ctx, ast.Store):
            names.add(n.id)
        if isinstance(n, ast.ExceptHandler) and n.name:
            names.add(n.name)
        if isinstance(n, (ast.Import, ast.ImportFrom)):
            for a in n.names:
                names.add((a.asname or a.name).split(".")[0])
        for c in ast.iter_child_nodes(n):
            walk(c)
    walk(fnode, True)
    _LOCALS_CACHE[key] = names
    return names


# ------------------------------------------------------------------ vocabulary
class Vocab:
    """what contracts use to build symbolic argument shapes"""

    def __init__(self, path):
        self.path = path

    def Int(self, name):
        return z3.Int(self.path.fresh_name(name))

    def Bool(self, name):
        return z3.Bool(self.path.fresh_name(name))

    def Real(self, name):
        return z3.Real(self.path.fresh_name(name))

    def Str(self, name):
        return z3.String(self.path.fresh_name(name))

    def Arr(self, name, kind="int", n=None, dtype=None):
        return self.path.fresh_arr(name, kind, n, dtype)

    def Fn(self, name, *sorts):
        ss = [SORTS[s] if isinstance(s, str) else s for s in sorts]
        return z3.Function(self.path.fresh_name(name), *ss)

    def assume(self, f):
        self.path.assume(f)

    def Obj(self, clsname, module, **attrs):
        mi = self.path.engine.module(module)
        return Obj(mi.env.lookup(clsname), attrs)


V = None  # placeholder passed to configs(); configs return callables taking a Vocab


# ------------------------------------------------------------------ interpreter
class Frame:
    def __init__(self, fn, env):
        self.fn = fn
        self.env = env
        self.yields = None
        self.loop_ord = 0
        self.is_top = False


class Interp:
    def __init__(self, engine, path, module):
        self.engine = engine
        self.path = path
        self.module = module
        self.contract = None
        self.top_fn = None
        self.frames = []
        self.depth = 0
        self.top_env = None

    # ---------------------------------------------------------------- calls
    def call(self, fn, args, kwargs, node=None):
        if isinstance(fn, BoundMethod):
            return self.call(fn.func, [fn.obj] + list(args), kwargs, node)
        if isinstance(fn, Closure):
            target = f"{fn.module.name}:{fn.qualname}"
            c = REGISTRY.get(target)
            if c is not None and not c.inline:
                return self.apply_contract(c, fn, args, kwargs, node)
            if c is None and not getattr(fn, "allow_inline", False) and fn.qualname.count("<") == 0 \
                    and target not in self.engine.inline_ok:
                # a repository function without a contract: execute its real body at the call site
                # (keeps the check robust against harmless extract-helper refactorings); recorded
                self.engine.auto_inlined.add(target)
            deep = self.path.ghost.get("__free_deep__")
            if deep and fn.qualname.count("<") == 0 and not getattr(fn, "_deep_done", False):
                # the contract's stubs also stand in for the same names inside repository callees executed inline
                # (e.g. `h5py` seen by a helper of the same module)
                fn = Closure(fn.node, Env(fn.env, dict(self.path.ghost.get("__free__") or {})), fn.module, fn.qualname, fn.cls)
                fn._deep_done = True
            return self.call_closure(fn, args, kwargs)
        if isinstance(fn, LibFunc):
            return fn.fn(self, *args, **kwargs)
        if isinstance(fn, ClassInfo):
            return self.instantiate(fn, args, kwargs, node)
        if isinstance(fn, ExcClass):
            return ExcVal(fn.name, args)
        if isinstance(fn, Partial):
            kw = dict(fn.kwargs)
            kw.update(kwargs)
            return self.call(fn.func, fn.args + list(args), kw, node)
        if isinstance(fn, Composed):
            fs = fn.funcs
            r = self.call(fs[-1], args, kwargs, node)
            for f in reversed(fs[:-1]):
                r = self.call(f, [r], {}, node)
            return r
        if isinstance(fn, DTypeV):
            return args[0]
        if isinstance(fn, Obj):
            m = fn.cls.lookup("__call__") if isinstance(fn.cls, ClassInfo) else None
            if m is not None:
                return self.call(m, [fn] + list(args), kwargs, node)
        if isinstance(fn, Opaque):
            raise Unsupported(f"call of opaque value {fn.tag}")
        if callable(fn) and getattr(fn, "_pyvc_native", False):
            return fn(self, *args, **kwargs)
        raise Unsupported(f"call of {type(fn).__name__} {fn!r}")

    def instantiate(self, cls, args, kwargs, node=None):
        obj = Obj(cls)
        init = cls.lookup("__init__")
        if init is not None:
            self.call(init, [obj] + list(args), kwargs, node)
        return obj

    def bind_params(self, fn: Closure, args, kwargs, env):
        a = fn.node.args
        params = [p.arg for p in a.posonlyargs + a.args]
        defaults = a.defaults
        ndef = len(defaults)
        args = list(args)
        kwargs = dict(kwargs)
        if len(args) > len(params) and a.vararg is None:
            raise PyRaise(ExcVal("TypeError", ("too many positional arguments",)))
        for i, p in enumerate(params):
            if i < len(args):
                if p in kwargs:
                    raise PyRaise(ExcVal("TypeError", (f"multiple values for {p}",)))
                env.set(p, args[i])
            elif p in kwargs:
                env.set(p, kwargs.pop(p))
            else:
                di = i - (len(params) - ndef)
                if di < 0:
                    raise PyRaise(ExcVal("TypeError", (f"missing argument {p}",)))
                env.set(p, self.eval(defaults[di], fn.env))
        if a.vararg is not None:
            env.set(a.vararg.arg, tuple(args[len(params):]))
        for p, d in zip(a.kwonlyargs, a.kw_defaults):
            if p.arg in kwargs:
                env.set(p.arg, kwargs.pop(p.arg))
            elif d is not None:
                env.set(p.arg, self.eval(d, fn.env))
            else:
                raise PyRaise(ExcVal("TypeError", (f"missing kw argument {p.arg}",)))
        if a.kwarg is not None:
            env.set(a.kwarg.arg, kwargs)
        elif kwargs:
            raise PyRaise(ExcVal("TypeError", (f"unexpected keyword {list(kwargs)}",)))

    def call_closure(self, fn: Closure, args, kwargs, top=False):
        if self.depth > 40:
            raise Unsupported("inlining depth > 40 (recursion needs a contract)")
        env = Env(fn.env)
        if isinstance(fn.node, ast.Lambda):
            self.bind_params(fn, args, kwargs, env)
            return self.eval(fn.node.body, env)
        self.bind_params(fn, args, kwargs, env)
        frame = Frame(fn, env)
        frame.is_top = top
        if top:
            self.top_env = env
        is_gen = _contains_yield(fn.node)
        if is_gen:
            frame.yields = []
        self.frames.append(frame)
        self.depth += 1
        saved_module = self.module
        self.module = fn.module
        try:
            try:
                self.exec_block(fn.node.body, env)
                rv = None
            except ReturnEx as r:
                rv = r.value
        finally:
            self.frames.pop()
            self.depth -= 1
            self.module = saved_module
        if is_gen:
            return GenV(frame.yields)
        return rv

    def apply_contract(self, c, fn, args, kwargs, node):
        """modular call: check requires, assume ensures on a fresh result"""
        env = Env(fn.env)
        self.bind_params(fn, args, kwargs, env)
        a = _cargs(env.vars)
        if getattr(c, "_v", None) is None or c._v.path is not self.path:
            c._v = Vocab(self.path)     # the callee's contract reads the caller's path ghost
            c._I = self
        ordn = self.path.ordinal(("pre", c.target))
        short = c.target.split(":")[1]
        for nm, cond in _named(c.requires(**a)):
            self.path.oblige("pre", f"{short}#{ordn}" + (f".{nm}" if nm else ""), cond,
                             getattr(node, "lineno", None))
        v = Vocab(self.path)
        # exceptional outcomes the callee's contract allows
        for exc_name, condfn in c.raises.items():
            cond = condfn(**a)
            if cond is False:
                continue
            if self.path.branch(cond if is_z3(cond) else bool(cond)):
                raise PyRaise(ExcVal(exc_name, (f"raised by {short} (contract)",)))
        res = c.result(v, **a)
        ghost = None
        if isinstance(res, tuple) and len(res) == 2 and isinstance(res[1], dict) and res[1].get("__ghost__"):
            res, ghost = res
        import inspect
        if "ghost" in inspect.signature(c.ensures).parameters:
            ens = c.ensures(res, ghost=ghost or {}, **a)
        else:
            ens = c.ensures(res, **a)
        for nm, cond in _named(ens):
            if nm in getattr(c, "not_assumed", ()):
                # a clause recorded as a known finding (refuted on the current tree) is never assumed by callers
                continue
            self.path.assume(cond)
        if ghost is not None:
            self.path.ghost.setdefault("calls", []).append((c.target, a, res, ghost))
        eff = c.effects(v, **a)
        if not c.trusted:
            pass
        else:
            self.path.assumptions_used.add(f"trusted contract on {c.target}")
        return res

    # ---------------------------------------------------------------- statements
    def exec_block(self, stmts, env):
        for s in stmts:
            self.exec_stmt(s, env)

    def exec_stmt(self, s, env):
        m = getattr(self, "st_" + type(s).__name__, None)
        if m is None:
            raise Unsupported(f"{self.module.name}:{getattr(s, 'lineno', '?')}: statement {type(s).__name__}")
        return m(s, env)

    def st_Pass(self, s, env):
        pass

    def st_Expr(self, s, env):
        if isinstance(s.value, ast.Constant):
            return
        if isinstance(s.value, (ast.Yield,)):
            fr = self.frames[-1]
            val = self.eval(s.value.value, env) if s.value.value is not None else None
            fr.yields.append(val)
            return
        self.eval(s.value, env)

    def st_Return(self, s, env):
        raise ReturnEx(self.eval(s.value, env) if s.value is not None else None)

    def st_Break(self, s, env):
        raise BreakEx()

    def st_Continue(self, s, env):
        raise ContinueEx()

    def st_Global(self, s, env):
        raise Unsupported("global statement")

    def st_Nonlocal(self, s, env):
        raise Unsupported("nonlocal statement")

    def st_Import(self, s, env):
        for a in s.names:
            top = a.name.split(".")[0]
            if a.asname:
                env.set(a.asname, self.resolve_module(a.name))
            else:
                env.set(top, self.resolve_module(top))

    def st_ImportFrom(self, s, env):
        modname = s.module or ""
        if s.level:
            base = self.module.name.split(".")
            # package of current module
            is_pkg = self.module.path.endswith("__init__.py")
            up = s.level - (1 if is_pkg else 0)
            base = base[: len(base) - up] if not is_pkg else base[: len(base) - up]
            if not is_pkg:
                base = self.module.name.split(".")[: -s.level]
            modname = ".".join(base + ([modname] if modname else []))
        for a in s.names:
            nm = a.asname or a.name
            # an import inside the function under contract binds a local name: the contract's stub for that name (given in
            # __free__) stands in for it exactly as it does for module-level names
            free = (self.path.ghost.get("__free__") or {}) if self.frames and self.frames[-1].is_top else {}
            if nm in free:
                env.set(nm, free[nm])
                continue
            env.set(nm, self.resolve_from(modname, a.name))

    def resolve_module(self, name):
        if name == "cooler" or name.startswith("cooler."):
            return self.engine.module(name)
        if name in self.engine.lib:
            return self.engine.lib[name]
        return Opaque(f"module:{name}")

    def resolve_from(self, modname, attr):
        full = f"{modname}.{attr}"
        if full in self.engine.lib:
            return self.engine.lib[full]
        if modname == "cooler" or modname.startswith("cooler."):
            # submodule?
            rel = full.replace(".", "/")
            if os.path.exists(os.path.join(SRC, rel + ".py")) or os.path.exists(os.path.join(SRC, rel, "__init__.py")):
                return self.engine.module(full)
            mi = self.engine.module(modname)
            try:
                return mi.env.lookup(attr)
            except KeyError:
                return Opaque(f"{full} (unresolved)")
        if modname in self.engine.lib:
            ns = self.engine.lib[modname]
            if isinstance(ns, LibNS):
                try:
                    return ns.get(attr)
                except Unsupported:
                    return Opaque(f"{full} (no assumed contract)")
        return Opaque(f"{full} (external)")

    def st_FunctionDef(self, s, env):
        qual = s.name
        if self.frames:
            qual = self.frames[-1].fn.qualname + "." + s.name
        cl = Closure(s, env, self.module, qual)
        cl.allow_inline = bool(self.frames)  # nested defs are executed inline
        for d in s.decorator_list:
            dn = ast.unparse(d)
            if dn in ("property",):
                cl.is_property = True
            if dn == "overload":
                return
            if dn.endswith("contextmanager"):
                cl.is_contextmanager = True
        env.set(s.name, cl)

    def st_ClassDef(self, s, env):
        bases = []
        for b in s.bases:
            try:
                bases.append(self.eval(b, env))
            except Unsupported:
                bases.append(Opaque(ast.unparse(b)))
        if any(isinstance(b, ExcClass) for b in bases):
            from .values import EXC_BASES
            bn = [b for b in bases if isinstance(b, ExcClass)][0].name
            EXC_BASES[s.name] = bn
            env.set(s.name, ExcClass(s.name))
            return
        ci = ClassInfo(s.name, self.module, s, bases)
        cenv = Env(env)
        for node in s.body:
            if isinstance(node, ast.FunctionDef):
                if any(ast.unparse(d) == "overload" for d in node.decorator_list):
                    continue
                cl = Closure(node, env, self.module, f"{s.name}.{node.name}", ci)
                decs = [ast.unparse(d) for d in node.decorator_list]
                if "property" in decs:
                    ci.props[node.name] = cl
                elif any(d.endswith(".setter") for d in decs):
                    pass
                elif "staticmethod" in decs:
                    cl.is_static = True
                    ci.methods[node.name] = cl
                else:
                    ci.methods[node.name] = cl
            elif isinstance(node, ast.Assign):
                try:
                    val = self.eval(node.value, cenv)
                    for t in node.targets:
                        if isinstance(t, ast.Name):
                            ci.attrs[t.id] = val
                            cenv.set(t.id, val)
                except (Unsupported, KeyError):
                    pass
        env.set(s.name, ci)

    def st_Assign(self, s, env):
        val = self.eval(s.value, env)
        for t in s.targets:
            self.assign(t, val, env)

    def st_AnnAssign(self, s, env):
        if s.value is not None:
            self.assign(s.target, self.eval(s.value, env), env)

    def st_AugAssign(self, s, env):
        if isinstance(s.target, ast.Name):
            cur = self.lookup(s.target.id, env, s)
        else:
            cur = self.eval(_as_load(s.target), env)
        rhs = self.eval(s.value, env)
        if isinstance(s.op, ast.Add) and isinstance(cur, (list, SegList)):
            # list += iterable : in-place extend
            newv = self.list_extend(cur, rhs)
            self.assign(s.target, newv, env)
            return
        self.assign(s.target, self.binop(s.op, cur, rhs, s), env)

    def list_extend(self, cur, rhs):
        if isinstance(cur, list) and isinstance(rhs, (list, tuple)):
            cur.extend(rhs)
            return cur
        seg = cur if isinstance(cur, SegList) else SegList([("one", x) for x in cur])
        if isinstance(rhs, (list, tuple)):
            seg.segs.extend(("one", x) for x in rhs)
        elif isinstance(rhs, SymList):
            seg.segs.append(("many", rhs))
        elif isinstance(rhs, SegList):
            seg.segs.extend(rhs.segs)
        elif isinstance(rhs, GenV):
            return self.list_extend(seg, rhs.items)
        else:
            raise Unsupported(f"list += {type(rhs).__name__}")
        return seg

    def st_Delete(self, s, env):
        for t in s.targets:
            if isinstance(t, ast.Name):
                env.vars.pop(t.id, None)
            elif isinstance(t, ast.Subscript):
                base = self.eval(t.value, env)
                key = self.eval_index(t.slice, env)
                self.del_item(base, key, t)
            else:
                raise Unsupported("del of " + type(t).__name__)

    def del_item(self, base, key, node):
        if isinstance(base, dict):
            if key not in base:
                raise PyRaise(ExcVal("KeyError", (key,)))
            del base[key]
            return
        h = getattr(base, "pyvc_delitem", None)
        if h:
            return h(self, key)
        raise Unsupported(f"del on {type(base).__name__}")

    def st_Assert(self, s, env):
        cond = self.truthy(self.eval(s.test, env))
        n = self.path.ordinal("assert")
        self.path.oblige("assert", f"{n}", cond if is_z3(cond) else z3.BoolVal(bool(cond)), s.lineno,
                         note=ast.unparse(s.test))
        self.path.assume(cond if is_z3(cond) else z3.BoolVal(bool(cond)))

    def st_Raise(self, s, env):
        if s.exc is None:
            fr = self.frames[-1] if self.frames else None
            cur = getattr(self, "_handling", None)
            if cur is None:
                raise Unsupported("bare raise outside handler")
            raise PyRaise(cur)
        val = self.eval(s.exc, env)
        if isinstance(val, ExcClass):
            val = ExcVal(val.name, ())
        if not isinstance(val, ExcVal):
            raise Unsupported(f"raise of {val!r}")
        raise PyRaise(val)

    def st_If(self, s, env):
        c = self.truthy(self.eval(s.test, env))
        if self.path.branch(c):
            self.exec_block(s.body, env)
        else:
            self.exec_block(s.orelse, env)

    def st_Try(self, s, env):
        try:
            try:
                self.exec_block(s.body, env)
            except PyRaise as pr:
                for h in s.handlers:
                    if self.handler_matches(h, pr.exc, env):
                        if h.name:
                            env.set(h.name, pr.exc)
                        saved = getattr(self, "_handling", None)
                        self._handling = pr.exc
                        try:
                            self.exec_block(h.body, env)
                        finally:
                            self._handling = saved
                        break
                else:
                    raise
            else:
                self.exec_block(s.orelse, env)
        except (PyRaise, ReturnEx, BreakEx, ContinueEx):
            # finally runs on abrupt completion too
            self.exec_block(s.finalbody, env)
            raise
        else:
            self.exec_block(s.finalbody, env)

    def handler_matches(self, h, exc, env):
        if h.type is None:
            return True
        t = self.eval(h.type, env)
        ts = t if isinstance(t, tuple) else (t,)
        for x in ts:
            if isinstance(x, ExcClass):
                if exc_is(exc.cls, x.name):
                    return True
            else:
                raise Unsupported(f"except clause with {x!r}")
        return False

    def st_With(self, s, env):
        # context managers: objects with pyvc_enter/pyvc_exit, or repo @contextmanager
        mgrs = []
        try:
            for item in s.items:
                cm = self.eval(item.context_expr, env)
                enter = getattr(cm, "pyvc_enter", None)
                if enter is None:
                    raise Unsupported(f"with on {cm!r}")
                val = enter(self)
                mgrs.append(cm)
                if item.optional_vars is not None:
                    self.assign(item.optional_vars, val, env)
            self.exec_block(s.body, env)
        except (PyRaise, ReturnEx, BreakEx, ContinueEx) as e:
            for cm in reversed(mgrs):
                cm.pyvc_exit(self, e if isinstance(e, PyRaise) else None)
            raise
        else:
            for cm in reversed(mgrs):
                cm.pyvc_exit(self, None)

    # ---- loops
    def loop_ordinal(self, fr, s):
        """ordinal of a loop = its syntactic position among the loops of the function (pre-order),
        independent of the path taken"""
        m = getattr(fr.fn, "_loop_ords", None)
        if m is None:
            m = {}
            cnt = [0]

            def walk(node):
                for ch in ast.iter_child_nodes(node):
                    if isinstance(ch, (ast.FunctionDef, ast.Lambda, ast.ClassDef)):
                        continue
                    if isinstance(ch, (ast.For, ast.While)):
                        m[id(ch)] = cnt[0]
                        cnt[0] += 1
                    walk(ch)
            walk(fr.fn.node)
            fr.fn._loop_ords = m
        return m.get(id(s))

    def st_For(self, s, env):
        fr = self.frames[-1] if self.frames else None
        ordn = None
        if fr is not None:
            ordn = self.loop_ordinal(fr, s)
        it = self.eval(s.iter, env)
        items = self.concrete_items(it)
        lspec = None
        if fr is not None and fr.is_top and self.contract is not None:
            lspec = self.contract.loops.get(ordn)
        if items is not None and lspec is None:
            broke = False
            for x in items:
                self.assign(s.target, x, env)
                try:
                    self.exec_block(s.body, env)
                except BreakEx:
                    broke = True
                    break
                except ContinueEx:
                    continue
            if not broke:
                self.exec_block(s.orelse, env)
            return
        if lspec is None:
            # `xs = []; for t in it: xs.append(e)` is the list comprehension [e for t in it] written out
            # (same elements, same order); treated as such so that this refactoring needs no invariant
            b = s.body[0] if len(s.body) == 1 and not s.orelse else None
            if (isinstance(b, ast.Expr) and isinstance(b.value, ast.Call) and isinstance(b.value.func, ast.Attribute)
                    and b.value.func.attr == "append" and isinstance(b.value.func.value, ast.Name)
                    and len(b.value.args) == 1 and not b.value.keywords):
                nm = b.value.func.value.id
                cur = env.lookup(nm) if env.has(nm) else None
                uses_self = any(isinstance(x, ast.Name) and x.id == nm for x in ast.walk(b.value.args[0]))
                if isinstance(cur, list) and not cur and not uses_self:
                    comp = ast.ListComp(elt=b.value.args[0], generators=[
                        ast.comprehension(target=s.target, iter=s.iter, ifs=[], is_async=0)])
                    env.set(nm, self.comprehension(comp, env, "list"))
                    return
            raise Unsupported(
                f"{self.module.name}:{s.lineno}: loop #{ordn} over a symbolic iterable needs an invariant")
        self.symbolic_for(s, env, it, lspec, ordn)

    def concrete_items(self, it):
        """python list of the items if the iterable has concrete length, else None"""
        if isinstance(it, (list, tuple)):
            return list(it)
        if isinstance(it, dict):
            return list(it.keys())
        if isinstance(it, (set, frozenset)):
            return sorted(it, key=repr)
        if isinstance(it, str):
            return list(it)
        if isinstance(it, RangeV):
            if all(isinstance(x, int) for x in (it.start, it.stop, it.step)):
                return list(range(it.start, it.stop, it.step))
            return None
        if isinstance(it, GenV):
            return self.concrete_items(it.items)
        if isinstance(it, ZipV):
            parts = [self.concrete_items(p) for p in it.parts]
            if all(p is not None for p in parts):
                return [tuple(x) for x in zip(*parts)]
            return None
        if isinstance(it, EnumV):
            inner = self.concrete_items(it.inner)
            if inner is not None:
                return [(it.start + i, x) for i, x in enumerate(inner)]
            return None
        if isinstance(it, SegList):
            if all(k == "one" for k, _ in it.segs):
                return [v for _, v in it.segs]
            return None
        if isinstance(it, Arr):
            n = z3.simplify(it.n)
            if z3.is_int_value(n):
                return [it.at(z3.IntVal(i)) for i in range(n.as_long())]
            return None
        h = getattr(it, "pyvc_items", None)
        if h is not None:
            return h(self)
        return None

    def sym_iter(self, it):
        """(count, item_at(k)) view of a symbolic iterable"""
        if isinstance(it, RangeV):
            st, sp, step = it.start, it.stop, it.step
            if isinstance(step, int) and step == 1:
                cnt = spec.Max(to_term(sp) - to_term(st), 0)
                return cnt, (lambda k: to_term(st) + k)
            # general positive step
            self.path.oblige("pre", "range-step-positive", to_term(step) > 0)
            cnt = spec.Max(spec.cdiv(to_term(sp) - to_term(st), to_term(step)), 0)
            return cnt, (lambda k: to_term(st) + k * to_term(step))
        if isinstance(it, Arr):
            return it.n, it.at
        if isinstance(it, SymList):
            return it.n, it.at
        if isinstance(it, GenV):
            return self.sym_iter(it.items)
        if isinstance(it, ZipV):
            subs = [self.sym_iter(p) if self.concrete_items(p) is None else self._conc_iter(p)
                    for p in it.parts]
            cnt = subs[0][0]
            for c, _ in subs[1:]:
                cnt = spec.Min(cnt, c)
            return cnt, (lambda k: tuple(f(k) for _, f in subs))
        if isinstance(it, EnumV):
            c, f = self.sym_iter(it.inner)
            return c, (lambda k: (to_term(it.start) + k, f(k)))
        h = getattr(it, "pyvc_symiter", None)
        if h is not None:
            return h(self)
        raise Unsupported(f"symbolic iteration over {type(it).__name__}")

    def _conc_iter(self, p):
        items = self.concrete_items(p)
        raise Unsupported("zip of concrete and symbolic iterables")

    def symbolic_for(self, s, env, it, lspec, ordn):
        path = self.path
        cnt, item_at = self.sym_iter(it)
        body_assigned = _assigned_names(s.body) + _assigned_names([ast.Expr(value=ast.Constant(0))])
        tgt_names = _assigned_names([ast.Assign(targets=[s.target], value=ast.Constant(0))])
        mutated = _mutated_names(s.body)
        # 1. invariant holds on entry (0 iterations done)
        S0 = State(env, {"it": z3.IntVal(0), "count": cnt, "item_at": item_at})
        if lspec.prepare is not None:
            lspec.prepare(S0, self)
        ghost_names = []
        if lspec.ghost_init is not None:
            for gn, gv in lspec.ghost_init(S0, self).items():
                env.set("__g_" + gn, gv)
                ghost_names.append("__g_" + gn)
        for nm, cond in _named(lspec.inv(S0)):
            path.oblige("inv-init", f"loop{ordn}.{nm}", cond, s.lineno)
        # 2. havoc everything the body may change
        k = path.fresh_int(f"it{ordn}")
        path.assume(k >= 0)
        path.assume(k <= cnt)
        for nm in body_assigned:
            if nm in tgt_names:
                continue
            if nm in lspec.havoc:
                env.set(nm, lspec.havoc[nm](Vocab(path)))
            elif env.has(nm) and nm in env.vars:
                env.set(nm, self.havoc_value(env.vars[nm], nm))
            # else: first assigned in the body, not visible before: leave unbound
        for nm in mutated:
            if nm in body_assigned:
                continue
            if nm in lspec.havoc:
                env.set(nm, lspec.havoc[nm](Vocab(path)))
            elif env.has(nm):
                newv = self.havoc_value(env.lookup(nm), nm)
                # rebinding in the defining scope
                e = env
                while e is not None and nm not in e.vars:
                    e = e.parent
                (e or env).vars[nm] = newv
        for gn in ghost_names:
            if gn in lspec.havoc:
                env.set(gn, lspec.havoc[gn](Vocab(path)))
            else:
                env.set(gn, self.havoc_value(env.vars[gn], gn))
        Sk = State(env, {"it": k, "count": cnt, "item_at": item_at})
        for nm, cond in _named(lspec.inv(Sk)):
            path.assume(cond)
        # 3. fork: another iteration, or exit
        if path.branch(k < cnt):
            self.assign(s.target, item_at(k), env)
            try:
                self.exec_block(s.body, env)
            except ContinueEx:
                pass
            except BreakEx:
                # leaves the loop with the current state; else-clause skipped
                return
            S1 = State(env, {"it": k + 1, "count": cnt, "item_at": item_at})
            if lspec.ghost_step is not None:
                lspec.ghost_step(S1, self)
            for nm, cond in _named(lspec.inv(S1)):
                path.oblige("inv-keep", f"loop{ordn}.{nm}", cond, s.lineno)
            raise PathEnd()
        else:
            # k == cnt : loop finished
            self.exec_block(s.orelse, env)

    def havoc_value(self, old, nm):
        p = self.path
        if isinstance(old, bool) or isinstance(old, z3.BoolRef):
            return p.fresh_bool(nm)
        if isinstance(old, int) or (isinstance(old, z3.ArithRef) and old.is_int()):
            return p.fresh_int(nm)
        if isinstance(old, float) or (isinstance(old, z3.ArithRef) and old.is_real()):
            return p.fresh_real(nm)
        if isinstance(old, Arr):
            return p.fresh_arr(nm, old.kind, dtype=old.dtype)
        if isinstance(old, ConcatList):
            cnt = p.fresh_int(nm + ".count")
            p.assume(cnt >= 0)
            return ConcatList(cnt, p.fresh_arr(nm + ".flat", old.flat.kind, dtype=old.flat.dtype))
        if isinstance(old, tuple):
            return tuple(self.havoc_value(x, f"{nm}.{i}") for i, x in enumerate(old))
        if isinstance(old, dict):
            return {k: self.havoc_value(x, f"{nm}.{k}") for k, x in old.items()}
        if isinstance(old, (str, z3.SeqRef)):
            return p.fresh_str(nm)
        if isinstance(old, z3.FuncDeclRef):
            return z3.Function(p.fresh_name(nm), *([old.domain(i) for i in range(old.arity())] + [old.range()]))
        h = getattr(old, "pyvc_havoc", None)
        if h is not None:
            return h(self, nm)
        if old is None:
            raise Unsupported(f"cannot havoc {nm}: None before the loop (give a havoc shape in the LoopSpec)")
        raise Unsupported(f"cannot havoc {nm} of type {type(old).__name__} (give a havoc shape in the LoopSpec)")

    def st_While(self, s, env):
        fr = self.frames[-1] if self.frames else None
        ordn = None
        if fr is not None:
            ordn = self.loop_ordinal(fr, s)
        lspec = None
        if fr is not None and fr.is_top and self.contract is not None:
            lspec = self.contract.loops.get(ordn)
        if lspec is None:
            # try plain concrete execution with a generous unroll guard
            for _ in range(200):
                c = self.truthy(self.eval(s.test, env))
                if is_z3(c):
                    c2 = z3.simplify(c)
                    if z3.is_true(c2):
                        c = True
                    elif z3.is_false(c2):
                        c = False
                    else:
                        raise Unsupported(
                            f"{self.module.name}:{s.lineno}: while loop #{ordn} with symbolic condition needs an invariant")
                if not c:
                    self.exec_block(s.orelse, env)
                    return
                try:
                    self.exec_block(s.body, env)
                except BreakEx:
                    return
                except ContinueEx:
                    continue
            raise Unsupported("while loop does not terminate within 200 concrete iterations")
        path = self.path
        body_assigned = _assigned_names(s.body)
        mutated = _mutated_names(s.body)
        S0 = State(env, {})
        for nm, cond in _named(lspec.inv(S0)):
            path.oblige("inv-init", f"loop{ordn}.{nm}", cond, s.lineno)
        for nm in body_assigned:
            if nm in lspec.havoc:
                env.set(nm, lspec.havoc[nm](Vocab(path)))
            elif nm in env.vars:
                env.set(nm, self.havoc_value(env.vars[nm], nm))
        for nm in mutated:
            if nm in body_assigned:
                continue
            if nm in lspec.havoc:
                env.set(nm, lspec.havoc[nm](Vocab(path)))
            elif env.has(nm):
                env.vars[nm] = self.havoc_value(env.lookup(nm), nm)
        Sk = State(env, {})
        for nm, cond in _named(lspec.inv(Sk)):
            path.assume(cond)
        var0 = lspec.variant(Sk) if lspec.variant else None
        c = self.truthy(self.eval(s.test, env))
        if path.branch(c):
            try:
                self.exec_block(s.body, env)
            except ContinueEx:
                pass
            except BreakEx:
                return
            S1 = State(env, {})
            for nm, cond in _named(lspec.inv(S1)):
                path.oblige("inv-keep", f"loop{ordn}.{nm}", cond, s.lineno)
            if var0 is not None:
                var1 = lspec.variant(S1)
                path.oblige("variant", f"loop{ordn}", z3.And(var0 >= 0, var1 < var0), s.lineno)
            raise PathEnd()
        else:
            self.exec_block(s.orelse, env)

    # ---------------------------------------------------------------- assignment
    def assign(self, target, val, env):
        if isinstance(target, ast.Name):
            env.set(target.id, val)
        elif isinstance(target, (ast.Tuple, ast.List)):
            items = self.unpack(val, len(target.elts), target)
            for t, v in zip(target.elts, items):
                self.assign(t, v, env)
        elif isinstance(target, ast.Attribute):
            obj = self.eval(target.value, env)
            if isinstance(obj, Obj):
                obj.attrs[target.attr] = val
            else:
                h = getattr(obj, "pyvc_setattr", None)
                if h is None:
                    raise Unsupported(f"attribute store on {type(obj).__name__}")
                h(self, target.attr, val)
        elif isinstance(target, ast.Subscript):
            base = self.eval(target.value, env)
            key = self.eval_index(target.slice, env)
            self.store_item(base, key, val, target)
        elif isinstance(target, ast.Starred):
            raise Unsupported("starred assignment")
        else:
            raise Unsupported(f"assignment to {type(target).__name__}")

    def unpack(self, val, n, node):
        if isinstance(val, (tuple, list)):
            if len(val) != n:
                raise PyRaise(ExcVal("ValueError", (f"unpack: expected {n} values, got {len(val)}",)))
            return list(val)
        if isinstance(val, GenV):
            return self.unpack(val.items, n, node)
        if isinstance(val, Arr):
            self.path.oblige("unpack", f"{self.path.ordinal('unpack')}", val.n == n, getattr(node, "lineno", None))
            return [val.at(z3.IntVal(i)) for i in range(n)]
        items = self.concrete_items(val)
        if items is not None:
            return self.unpack(items, n, node)
        h = getattr(val, "pyvc_unpack", None)
        if h is not None:
            return h(self, n)
        raise Unsupported(f"unpack of {type(val).__name__}")

    def store_item(self, base, key, val, node):
        if isinstance(base, dict):
            if is_z3(key):
                raise Unsupported("dict store with symbolic key")
            base[key] = val
            return
        if isinstance(base, list):
            if isinstance(key, int):
                if not (-len(base) <= key < len(base)):
                    raise PyRaise(ExcVal("IndexError", ("list assignment index out of range",)))
                base[key] = val
                return
            raise Unsupported("list store with non-constant index")
        if isinstance(base, Arr):
            return self.arr_store(base, key, val, node)
        h = getattr(base, "pyvc_setitem", None)
        if h is not None:
            return h(self, key, val)
        raise Unsupported(f"subscript store on {type(base).__name__}")

    def arr_store(self, base: Arr, key, val, node):
        """in-place update of an array: the Arr object is mutated (aliasing kept)"""
        old_at = base.at
        n = base.n
        if isinstance(key, (int, z3.ArithRef)):
            idx = self.norm_index(key, n, node)
            v = to_term(val) if not is_z3(val) else val
            base.at = lambda k, old_at=old_at, idx=idx, v=v: z3.If(k == idx, v, old_at(k))
            return
        if isinstance(key, SliceV) and (key.step is None or key.step == 1):
            if isinstance(val, Arr):
                # a[lo:hi] = values: the lengths must agree (numpy raises ValueError otherwise: a shape obligation)
                lo, hi = self.slice_bounds(key, n)
                hi = z3.If(hi < lo, lo, hi)
                self.path.oblige("shape", f"slice-store-lengths#{self.path.ordinal('slicestore')}", val.n == hi - lo,
                                 getattr(node, "lineno", None))
                fv = val.at
                base.at = lambda k, old_at=old_at, lo=lo, hi=hi, fv=fv: z3.If(z3.And(k >= lo, k < hi), fv(k - lo), old_at(k))
                return
            lo, hi = self.slice_bounds(key, n)
            v = to_term(val)
            base.at = lambda k, old_at=old_at, lo=lo, hi=hi, v=v: z3.If(z3.And(k >= lo, k < hi), v, old_at(k))
            return
        if isinstance(key, Arr) and key.kind == "bool":
            m = key
            if isinstance(val, Arr):
                prov = getattr(val, "_filtered_from", None)
                if prov is not None and prov[0] is key:
                    # x[mask] = y[mask] with the SAME mask: position k receives y[k] where mask[k]
                    # (numpy assigns the selected values in order; src(rank(k)) == k)
                    fy = prov[1]
                    base.at = lambda k, old_at=old_at, m=m, fy=fy: z3.If(m.at(k), fy(k), old_at(k))
                    return
                raise Unsupported("masked store of an array value (other than y[mask] with the same mask)")
            v = to_term(val)
            base.at = lambda k, old_at=old_at, m=m, v=v: z3.If(m.at(k), v, old_at(k))
            return
        raise Unsupported(f"array store with key {type(key).__name__}")

    # ---------------------------------------------------------------- expressions
    def lookup(self, name, env, node=None):
        try:
            v = env.lookup(name)
        except KeyError:
            # a name the CURRENT function assigns somewhere, read on a path where it has not been assigned: CPython raises
            # UnboundLocalError (a behaviour of the analysed program, not a gap of the executor)
            fr = self.frames[-1] if self.frames else None
            fnode = getattr(getattr(fr, "fn", None), "node", None)
            if fnode is not None and not isinstance(fnode, ast.Lambda) and name in _assigned_locals(fnode):
                raise PyRaise(ExcVal("UnboundLocalError", (f"local variable '{name}' referenced before assignment",)))
            raise Unsupported(f"{self.module.name}:{getattr(node, 'lineno', '?')}: unbound name {name}")
        if isinstance(v, Opaque) and v.tag.startswith("unevaluated"):
            raise Unsupported(v.tag)
        return v

    def eval(self, e, env):
        m = getattr(self, "ex_" + type(e).__name__, None)
        if m is None:
            raise Unsupported(f"{self.module.name}:{getattr(e, 'lineno', '?')}: expression {type(e).__name__}")
        return m(e, env)

    def ex_Constant(self, e, env):
        return e.value

    def ex_Name(self, e, env):
        return self.lookup(e.id, env, e)

    def ex_Tuple(self, e, env):
        out = []
        for x in e.elts:
            if isinstance(x, ast.Starred):
                out.extend(self.iter_concrete(self.eval(x.value, env)))
            else:
                out.append(self.eval(x, env))
        return tuple(out)

    def ex_List(self, e, env):
        return list(self.ex_Tuple(e, env))

    def ex_Set(self, e, env):
        return set(self.ex_Tuple(e, env))

    def ex_Dict(self, e, env):
        d = {}
        for k, v in zip(e.keys, e.values):
            if k is None:
                d.update(self.eval(v, env))
            else:
                kk = self.eval(k, env)
                if is_z3(kk):
                    raise Unsupported("dict literal with symbolic key")
                d[kk] = self.eval(v, env)
        return d

    def ex_JoinedStr(self, e, env):
        parts = []
        for v in e.values:
            if isinstance(v, ast.Constant):
                parts.append(v.value)
            else:
                x = self.eval(v.value, env)
                if isinstance(x, (str, int)) and not isinstance(x, bool) and v.format_spec is None and v.conversion == -1:
                    parts.append(str(x))
                elif isinstance(x, z3.SeqRef) and v.format_spec is None:
                    parts.append(x)
                else:
                    # not a concrete string: opaque, but the evaluated pieces are kept for stubs that interpret them
                    o = Opaque("fstring")
                    o.parts = [(vv.value if isinstance(vv, ast.Constant) else self.eval(vv.value, env)) for vv in e.values]
                    return o
        if all(isinstance(p, str) for p in parts):
            return "".join(parts)
        out = None
        for p in parts:
            t = z3.StringVal(p) if isinstance(p, str) else p
            out = t if out is None else z3.Concat(out, t)
        return out

    def ex_Lambda(self, e, env):
        cl = Closure(e, env, self.module, "<lambda>")
        cl.allow_inline = True
        return cl

    def ex_IfExp(self, e, env):
        c = self.truthy(self.eval(e.test, env))
        if self.path.branch(c):
            return self.eval(e.body, env)
        return self.eval(e.orelse, env)

    def ex_BoolOp(self, e, env):
        is_and = isinstance(e.op, ast.And)
        val = None
        for i, sub in enumerate(e.values):
            val = self.eval(sub, env)
            if i == len(e.values) - 1:
                return val
            t = self.truthy(val)
            d = self.path.branch(t)
            if is_and and not d:
                return val
            if (not is_and) and d:
                return val
        return val

    def ex_UnaryOp(self, e, env):
        v = self.eval(e.operand, env)
        if isinstance(e.op, ast.Not):
            t = self.truthy(v)
            return spec.Not(t)
        if isinstance(e.op, ast.USub):
            if isinstance(v, Arr):
                return Arr(v.n, lambda k: -v.at(k), v.kind, v.dtype)
            if isinstance(v, Quot):
                return Quot(-v.num, v.den)
            return -v
        if isinstance(e.op, ast.UAdd):
            return v
        if isinstance(e.op, ast.Invert):
            if hasattr(v, "pyvc_invert"):
                return v.pyvc_invert(self)
            if isinstance(v, Arr) and v.kind == "bool":
                return Arr(v.n, lambda k: z3.Not(v.at(k)), "bool")
            if isinstance(v, z3.BoolRef):
                return z3.Not(v)
            if isinstance(v, int) and not isinstance(v, bool):
                return ~v
            raise Unsupported("~ on " + type(v).__name__)
        raise Unsupported("unary op")

    def ex_BinOp(self, e, env):
        a = self.eval(e.left, env)
        b = self.eval(e.right, env)
        return self.binop(e.op, a, b, e)

    def ex_Compare(self, e, env):
        left = self.eval(e.left, env)
        result = None
        for op, rn in zip(e.ops, e.comparators):
            right = self.eval(rn, env)
            r = self.compare(op, left, right, e)
            if result is None:
                result = r
            else:
                if isinstance(result, Arr) or isinstance(r, Arr):
                    raise Unsupported("chained array comparison")
                result = spec.And(result, r)
            left = right
        return result

    def ex_Attribute(self, e, env):
        obj = self.eval(e.value, env)
        return self.getattr(obj, e.attr, e)

    def ex_Subscript(self, e, env):
        base = self.eval(e.value, env)
        key = self.eval_index(e.slice, env)
        return self.getitem(base, key, e)

    def ex_Slice(self, e, env):
        return SliceV(self.eval(e.lower, env) if e.lower else None,
                      self.eval(e.upper, env) if e.upper else None,
                      self.eval(e.step, env) if e.step else None)

    def eval_index(self, sl, env):
        return self.eval(sl, env)

    def ex_Starred(self, e, env):
        raise Unsupported("starred expression outside call/tuple")

    def ex_Call(self, e, env):
        # logger.* and warnings.warn are dropped (documented)
        if isinstance(e.func, ast.Attribute) and isinstance(e.func.value, ast.Name):
            if e.func.value.id in ("logger", "warnings", "logging"):
                return None
        if (isinstance(e.func, ast.Name) and e.func.id == "zip" and len(e.args) == 1 and isinstance(e.args[0], ast.Starred)
                and not e.keywords):
            # zip(*pairs) over a stub that knows its own columns
            sv = self.eval(e.args[0].value, env)
            h = getattr(sv, "pyvc_unzip", None)
            if h is not None:
                return h(self)
            fn = self.eval(e.func, env)
            return self.call(fn, list(self.iter_concrete(sv)), {}, e)
        fn = self.eval(e.func, env)
        args = []
        for a in e.args:
            if isinstance(a, ast.Starred):
                args.extend(self.iter_concrete(self.eval(a.value, env)))
            else:
                args.append(self.eval(a, env))
        kwargs = {}
        for kw in e.keywords:
            if kw.arg is None:
                d = self.eval(kw.value, env)
                if not isinstance(d, dict):
                    raise Unsupported("** of non-dict")
                kwargs.update(d)
            else:
                kwargs[kw.arg] = self.eval(kw.value, env)
        return self.call(fn, args, kwargs, e)

    def iter_concrete(self, v):
        items = self.concrete_items(v)
        if items is None:
            raise Unsupported(f"need concrete-length iterable, got {type(v).__name__}")
        return items

    def ex_ListComp(self, e, env):
        return self.comprehension(e, env, "list")

    def ex_GeneratorExp(self, e, env):
        r = self.comprehension(e, env, "list")
        return GenV(r)

    def ex_SetComp(self, e, env):
        r = self.comprehension(e, env, "list")
        if isinstance(r, list):
            if not any(is_z3(x) for x in r):
                return set(r)
            # symbolic integers: a Python set of TERMS would count syntactically different but equal values twice;
            # use the cardinality abstraction (exact for len() compared with 0/1)
            from .lib_builtin import SymSet
            ints = [x for x in r if is_z3(x) or (isinstance(x, int) and not isinstance(x, bool))]
            others = set(x for x in r if not (is_z3(x) or (isinstance(x, int) and not isinstance(x, bool))))
            if any(not (isinstance(x, z3.ArithRef) and x.is_int()) for x in ints if is_z3(x)):
                raise Unsupported("set comprehension over symbolic non-integers")
            ss = SymSet.empty()
            ss.update(self, Arr(len(ints), lambda k, ints=ints: _select(ints, k), "int"))
            if others:
                # non-integer members (e.g. None) are distinct from every integer
                ss = SymSet(ss.card + len(others), ss.elem)
            return ss
        raise Unsupported("symbolic set comprehension")

    def ex_DictComp(self, e, env):
        if len(e.generators) != 1:
            raise Unsupported("nested dict comprehension")
        g = e.generators[0]
        it = self.eval(g.iter, env)
        items = self.concrete_items(it)
        if items is None:
            raise Unsupported("dict comprehension over symbolic iterable")
        out = {}
        for x in items:
            ce = Env(env)
            self.assign(g.target, x, ce)
            if all(self.path.branch(self.truthy(self.eval(c, ce))) for c in g.ifs):
                out[self.eval(e.key, ce)] = self.eval(e.value, ce)
        return out

    def comprehension(self, e, env, kind):
        gens = e.generators
        if len(gens) == 1:
            g = gens[0]
            it = self.eval(g.iter, env)
            items = self.concrete_items(it)
            if items is None:
                if g.ifs:
                    raise Unsupported("filtered comprehension over symbolic iterable")
                cnt, item_at = self.sym_iter(it)
                # comprehensions are eager in Python: snapshot the free variables now
                snap = {}
                for nnode in ast.walk(e.elt):
                    if isinstance(nnode, ast.Name) and isinstance(nnode.ctx, ast.Load) and env.has(nnode.id):
                        snap[nnode.id] = env.lookup(nnode.id)
                senv = Env(env, snap)

                def at(k, g=g, e=e, env=senv, item_at=item_at):
                    ce = Env(env)
                    self.assign(g.target, item_at(k), ce)
                    return self.eval(e.elt, ce)
                return SymList(cnt, at)
            out = []
            for x in items:
                ce = Env(env)
                self.assign(g.target, x, ce)
                if all(self.path.branch(self.truthy(self.eval(c, ce))) for c in g.ifs):
                    out.append(self.eval(e.elt, ce))
            return out
        # nested: concrete only
        out = []

        def rec(i, cenv):
            if i == len(gens):
                out.append(self.eval(e.elt, cenv))
                return
            g = gens[i]
            for x in self.iter_concrete(self.eval(g.iter, cenv)):
                ce = Env(cenv)
                self.assign(g.target, x, ce)
                if all(self.path.branch(self.truthy(self.eval(c, ce))) for c in g.ifs):
                    rec(i + 1, ce)
        rec(0, env)
        return out

    # ---------------------------------------------------------------- semantics
    def truthy(self, v):
        if isinstance(v, bool):
            return v
        if v is None:
            return False
        if isinstance(v, z3.BoolRef):
            return v
        if isinstance(v, z3.ArithRef):
            return v != 0
        if isinstance(v, z3.SeqRef):
            return z3.Length(v) > 0
        if isinstance(v, (int, float, str, list, tuple, dict, set)):
            return bool(v)
        if isinstance(v, SegList):
            if any(k == "one" for k, _ in v.segs):
                return True
            return z3.Or(*[sl.n > 0 for _, sl in v.segs]) if v.segs else False
        if isinstance(v, SymList):
            return v.n > 0
        if isinstance(v, ConcatList):
            return v.count > 0
        if isinstance(v, Arr):
            raise PyRaise(ExcVal("ValueError", ("truth value of an array is ambiguous",)))
        if isinstance(v, (Obj, Closure, LibFunc, ClassInfo, BoundMethod, Opaque, ExcVal, Composed, Partial)):
            h = None
            if isinstance(v, Obj) and isinstance(v.cls, ClassInfo):
                h = v.cls.lookup("__len__")
            if h is not None:
                return self.truthy(self.call(h, [v], {}))
            return True
        h = getattr(v, "pyvc_truthy", None)
        if h is not None:
            return h(self)
        raise Unsupported(f"truth value of {type(v).__name__}")

    def py_floordiv(self, a, b, node=None):
        a, b = to_term(a), to_term(b)
        self.path.oblige("zerodiv", f"{self.path.ordinal('zerodiv')}", b != 0, getattr(node, "lineno", None))
        if z3.is_int_value(b):
            return a / b if b.as_long() > 0 else (-a) / (-b)
        if self.path.implied(b > 0, 800):
            return a / b
        return z3.If(b > 0, a / b, (-a) / (-b))

    def py_mod(self, a, b, node=None):
        a, b = to_term(a), to_term(b)
        self.path.oblige("zerodiv", f"{self.path.ordinal('zerodiv')}", b != 0, getattr(node, "lineno", None))
        if z3.is_int_value(b):
            return a % b if b.as_long() > 0 else -((-a) % (-b))
        if self.path.implied(b > 0, 800):
            return a % b
        return z3.If(b > 0, a % b, -((-a) % (-b)))

    def binop(self, op, a, b, node=None):
        if isinstance(op, ast.Mult) and isinstance(a, (tuple, list)) and isinstance(b, int) and not isinstance(b, bool):
            return a * b          # sequence repetition (elements may be symbolic)
        if isinstance(op, ast.Add) and isinstance(a, tuple) and isinstance(b, tuple):
            return a + b
        # concrete
        if not _symbolic(a) and not _symbolic(b):
            return self.concrete_binop(op, a, b)
        if isinstance(a, Arr) or isinstance(b, Arr):
            return self.arr_binop(op, a, b, node)
        if isinstance(a, z3.FPRef) or isinstance(b, z3.FPRef):
            from .floats import fp_binop
            return fp_binop(self, op, a, b, node)
        if isinstance(a, (Quot, RealV)) or isinstance(b, (Quot, RealV)):
            return self.real_binop(op, a, b, node)
        if isinstance(a, (list, tuple, SegList, SymList)) and isinstance(op, ast.Add):
            new = SegList([("one", x) for x in a]) if isinstance(a, (list, tuple)) else SegList(
                a.segs if isinstance(a, SegList) else [("many", a)])
            return self.list_extend(new, b)
        if isinstance(a, list) and isinstance(op, ast.Mult):
            n = b
            if is_z3(n):
                x = a[0] if len(a) == 1 else None
                if x is None:
                    raise Unsupported("list * symbolic with len != 1")
                return SymList(spec.Max(n, 0), lambda k, x=x: x)
        if isinstance(a, z3.SeqRef) or isinstance(b, z3.SeqRef):
            if isinstance(op, ast.Add):
                return z3.Concat(to_term(a), to_term(b))
            raise Unsupported("string op")
        if isinstance(a, z3.BoolRef):
            a = z3.If(a, 1, 0)
        if isinstance(b, z3.BoolRef):
            b = z3.If(b, 1, 0)
        if isinstance(a, bool):
            a = int(a)
        if isinstance(b, bool):
            b = int(b)
        if isinstance(a, float) or isinstance(b, float):
            return self.real_binop(op, a, b, node)
        if not (isinstance(a, (int, z3.ArithRef)) and isinstance(b, (int, z3.ArithRef))):
            h = getattr(a, "pyvc_binop", None) or getattr(b, "pyvc_rbinop", None)
            if h is not None:
                return h(self, op, a, b)
            raise Unsupported(f"binop {type(op).__name__} on {type(a).__name__},{type(b).__name__}")
        if (is_z3(a) and a.is_real()) or (is_z3(b) and b.is_real()):
            return self.real_binop(op, a, b, node)
        if isinstance(op, ast.Add):
            return a + b
        if isinstance(op, ast.Sub):
            return a - b
        if isinstance(op, ast.Mult):
            return a * b
        if isinstance(op, ast.FloorDiv):
            return self.py_floordiv(a, b, node)
        if isinstance(op, ast.Mod):
            return self.py_mod(a, b, node)
        if isinstance(op, ast.Div):
            self.path.oblige("zerodiv", f"{self.path.ordinal('zerodiv')}", to_term(b) != 0,
                             getattr(node, "lineno", None))
            return Quot(to_term(a), to_term(b))
        if isinstance(op, ast.Pow):
            if isinstance(b, int) and b >= 0:
                r = 1
                for _ in range(b):
                    r = r * a
                return r
        raise Unsupported(f"binop {type(op).__name__} on integers")

    def concrete_binop(self, op, a, b):
        import operator as o
        table = {ast.Add: o.add, ast.Sub: o.sub, ast.Mult: o.mul, ast.Div: o.truediv,
                 ast.FloorDiv: o.floordiv, ast.Mod: o.mod, ast.Pow: o.pow,
                 ast.BitAnd: o.and_, ast.BitOr: o.or_, ast.BitXor: o.xor,
                 ast.LShift: o.lshift, ast.RShift: o.rshift}
        f = table.get(type(op))
        if f is None:
            raise Unsupported("concrete binop " + type(op).__name__)
        if isinstance(op, ast.Div) and isinstance(a, int) and isinstance(b, int) and not isinstance(a, bool):
            if b == 0:
                raise PyRaise(ExcVal("ZeroDivisionError", ()))
            return Quot(z3.IntVal(a), z3.IntVal(b))
        try:
            return f(a, b)
        except ZeroDivisionError:
            raise PyRaise(ExcVal("ZeroDivisionError", ()))
        except TypeError as ex:
            h = getattr(a, "pyvc_binop", None) or getattr(b, "pyvc_rbinop", None)
            if h is not None:
                return h(self, op, a, b)
            raise Unsupported(f"concrete binop failed: {ex}")

    def real_binop(self, op, a, b, node):
        from .floats import real_binop
        return real_binop(self, op, a, b, node)

    def arr_binop(self, op, a, b, node):
        from .lib_numpy import arr_binop
        return arr_binop(self, op, a, b, node)

    def compare(self, op, a, b, node=None):
        if isinstance(op, ast.Is):
            return self.is_same(a, b)
        if isinstance(op, ast.IsNot):
            return spec.Not(self.is_same(a, b))
        if isinstance(op, (ast.In, ast.NotIn)):
            r = self.contains(b, a, node)
            return r if isinstance(op, ast.In) else spec.Not(r)
        if isinstance(a, Arr) or isinstance(b, Arr):
            from .lib_numpy import arr_compare
            return arr_compare(self, op, a, b, node)
        if isinstance(a, (Quot, RealV)) or isinstance(b, (Quot, RealV)):
            from .floats import real_compare
            return real_compare(self, op, a, b, node)
        if not _symbolic(a) and not _symbolic(b):
            import operator as o
            table = {ast.Eq: o.eq, ast.NotEq: o.ne, ast.Lt: o.lt, ast.LtE: o.le, ast.Gt: o.gt, ast.GtE: o.ge}
            if isinstance(a, (Obj, Closure)) or isinstance(b, (Obj, Closure)):
                if isinstance(op, ast.Eq):
                    return a is b
                if isinstance(op, ast.NotEq):
                    return a is not b
            h = getattr(a, "pyvc_compare", None)
            if h is not None:
                return h(self, op, a, b)
            try:
                return table[type(op)](a, b)
            except TypeError:
                raise PyRaise(ExcVal("TypeError", ("unorderable",)))
        h = getattr(a, "pyvc_compare", None) or getattr(b, "pyvc_rcompare", None)
        if h is not None and (not is_z3(a) or getattr(b, "pyvc_rcompare", None) is not None):
            return h(self, op, a, b)
        if isinstance(a, (tuple, list)) and isinstance(b, (tuple, list)):
            if isinstance(op, (ast.Eq, ast.NotEq)):
                if len(a) != len(b):
                    r = False
                else:
                    r = spec.And(*[self.compare(ast.Eq(), x, y) for x, y in zip(a, b)]) if a else True
                return r if isinstance(op, ast.Eq) else spec.Not(r)
            raise Unsupported("ordering of symbolic tuples")
        if a is None or b is None:
            if isinstance(op, ast.Eq):
                return a is None and b is None
            if isinstance(op, ast.NotEq):
                return not (a is None and b is None)
            raise PyRaise(ExcVal("TypeError", ("None ordering",)))
        if isinstance(a, str) != isinstance(b, str) and not (isinstance(a, z3.SeqRef) or isinstance(b, z3.SeqRef)):
            if isinstance(op, ast.Eq):
                return False
            if isinstance(op, ast.NotEq):
                return True
        ta, tb = to_term(a), to_term(b)
        if z3.is_bool(ta) != z3.is_bool(tb):
            ta = z3.If(ta, 1, 0) if z3.is_bool(ta) else ta
            tb = z3.If(tb, 1, 0) if z3.is_bool(tb) else tb
        if isinstance(op, ast.Eq):
            if ta.sort() != tb.sort():
                if ta.sort().kind() in (z3.Z3_INT_SORT, z3.Z3_REAL_SORT) and tb.sort().kind() in (z3.Z3_INT_SORT, z3.Z3_REAL_SORT):
                    return ta == tb
                return False
            return ta == tb
        if isinstance(op, ast.NotEq):
            if ta.sort() != tb.sort():
                if ta.sort().kind() in (z3.Z3_INT_SORT, z3.Z3_REAL_SORT) and tb.sort().kind() in (z3.Z3_INT_SORT, z3.Z3_REAL_SORT):
                    return ta != tb
                return True
            return ta != tb
        if isinstance(ta, z3.SeqRef):
            raise Unsupported("string ordering")
        if isinstance(op, ast.Lt):
            return ta < tb
        if isinstance(op, ast.LtE):
            return ta <= tb
        if isinstance(op, ast.Gt):
            return ta > tb
        if isinstance(op, ast.GtE):
            return ta >= tb
        raise Unsupported("comparison " + type(op).__name__)

    def is_same(self, a, b):
        if a is None or b is None:
            if a is None and b is None:
                return True
            other = b if a is None else a
            if isinstance(other, OptV):
                return other.is_none
            return False
        if isinstance(a, bool) and isinstance(b, bool):
            return a is b
        if is_z3(a) or is_z3(b):
            if isinstance(a, bool) or isinstance(b, bool):
                x, y = (a, b) if is_z3(a) else (b, a)
                if z3.is_bool(x):
                    return x == z3.BoolVal(y)
                return False
            raise Unsupported("identity test on symbolic values")
        return a is b

    def contains(self, container, item, node=None):
        if isinstance(container, (tuple, list, set, frozenset)):
            if not _symbolic(item) and not any(_symbolic(x) for x in container):
                return item in container
            if not container:
                return False
            return spec.Or(*[self.compare(ast.Eq(), item, x) for x in container])
        if isinstance(container, dict):
            if _symbolic(item):
                if not container:
                    return False
                return spec.Or(*[self.compare(ast.Eq(), item, x) for x in container.keys()])
            return item in container
        if isinstance(container, str) and isinstance(item, str):
            return item in container
        if isinstance(container, (str, z3.SeqRef)):
            return z3.Contains(to_term(container), to_term(item))
        if isinstance(container, SymMap):
            return container.has(item)
        h = getattr(container, "pyvc_contains", None)
        if h is not None:
            return h(self, item)
        raise Unsupported(f"'in' on {type(container).__name__}")

    def norm_index(self, key, n, node, what="bounds"):
        """python index -> non-negative index term, with a bounds obligation"""
        k = to_term(key)
        ordn = self.path.ordinal(what)
        self.path.oblige(what, f"{ordn}", z3.And(k >= -n, k < n), getattr(node, "lineno", None),
                         note=ast.unparse(node) if node is not None else "")
        self.path.assume(z3.And(k >= -n, k < n))
        if isinstance(key, int):
            return k if key >= 0 else n + k
        if self.path.implied(k >= 0, 800):
            return k
        return z3.If(k < 0, k + n, k)

    def slice_bounds(self, sl: SliceV, n):
        """(lo, hi) clamped as Python does, for step None/1"""
        def clamp(x, default):
            if x is None:
                return default
            if isinstance(x, int) and x >= 0 and False:
                pass
            x = to_term(x)
            if not z3.is_int_value(x) and self.path.implied(z3.And(x >= 0, x <= n)):
                return x
            x = z3.If(x < 0, x + n, x)
            return z3.simplify(z3.If(x < 0, z3.IntVal(0), z3.If(x > n, n, x)))
        lo = clamp(sl.start, z3.IntVal(0))
        hi = clamp(sl.stop, n)
        return lo, hi

    def getitem(self, base, key, node=None):
        if isinstance(base, dict):
            if is_z3(key):
                # symbolic key into a concrete dict: fork over the keys
                for kk in base:
                    if self.path.branch(self.compare(ast.Eq(), key, kk)):
                        return base[kk]
                raise PyRaise(ExcVal("KeyError", (key,)))
            try:
                if key in base:
                    return base[key]
            except TypeError:
                raise Unsupported("unhashable dict key")
            raise PyRaise(ExcVal("KeyError", (key,)))
        if isinstance(base, (list, tuple, str)):
            if isinstance(key, SliceV):
                if all(x is None or isinstance(x, int) for x in (key.start, key.stop, key.step)):
                    return base[slice(key.start, key.stop, key.step)]
                raise Unsupported("symbolic slice of a concrete sequence")
            if isinstance(key, int):
                if not (-len(base) <= key < len(base)):
                    raise PyRaise(ExcVal("IndexError", ("index out of range",)))
                return base[key]
            if is_z3(key):
                if isinstance(base, str):
                    raise Unsupported("symbolic index into str")
                n = len(base)
                for i in range(n):
                    if self.path.branch(z3.Or(key == i, key == i - n)):
                        return base[i]
                raise PyRaise(ExcVal("IndexError", ("index out of range",)))
            raise Unsupported(f"index {key!r} on {type(base).__name__}")
        if isinstance(base, Arr):
            from .lib_numpy import arr_getitem
            return arr_getitem(self, base, key, node)
        if isinstance(base, SymMap):
            has = base.has(key)
            if not self.path.branch(has):
                raise PyRaise(ExcVal("KeyError", (key,)))
            return base.get(key)
        if isinstance(base, SymList):
            if isinstance(key, (int, z3.ArithRef)):
                idx = self.norm_index(key, base.n, node)
                return base.at(idx)
            if isinstance(key, SliceV) and key.start is None and key.stop is None and key.step == -1:
                n_, at_ = base.n, base.at
                return SymList(n_, lambda k: at_(n_ - 1 - k))
            if isinstance(key, SliceV) and key.step is None:
                lo, hi = self.slice_bounds(key, base.n)
                at_ = base.at
                return SymList(spec.Max(hi - lo, 0), lambda k, lo=lo: at_(lo + k))
        if isinstance(base, SegList):
            if isinstance(key, int) and all(k == "one" for k, _ in base.segs):
                return self.getitem([v for _, v in base.segs], key, node)
        if isinstance(base, GenV):
            raise PyRaise(ExcVal("TypeError", ("generator is not subscriptable",)))
        if isinstance(base, z3.SeqRef):
            from .strings import str_getitem
            return str_getitem(self, base, key, node)
        h = getattr(base, "pyvc_getitem", None)
        if h is not None:
            return h(self, key, node)
        if isinstance(base, Obj) and isinstance(base.cls, ClassInfo):
            m = base.cls.lookup("__getitem__")
            if m is not None:
                return self.call(m, [base, key], {}, node)
        raise Unsupported(f"subscript on {type(base).__name__}")

    def getattr(self, obj, attr, node=None):
        if isinstance(obj, Obj):
            if attr in obj.attrs:
                return obj.attrs[attr]
            if isinstance(obj.cls, ClassInfo):
                p = obj.cls.lookup_prop(attr)
                if p is not None:
                    return self.call(p, [obj], {}, node)
                m = obj.cls.lookup(attr)
                if m is not None:
                    if getattr(m, "is_static", False):
                        return m
                    return BoundMethod(obj, m)
                if attr in obj.cls.attrs:
                    return obj.cls.attrs[attr]
                if attr == "__class__":
                    return obj.cls
            raise PyRaise(ExcVal("AttributeError", (attr,)))
        if isinstance(obj, ModuleInfo):
            try:
                return obj.env.lookup(attr)
            except KeyError:
                # submodule
                try:
                    return self.engine.module(obj.name + "." + attr)
                except Unsupported:
                    raise Unsupported(f"{obj.name}.{attr} unresolved")
        if isinstance(obj, LibNS):
            return obj.get(attr)
        if isinstance(obj, ClassInfo):
            if attr == "__name__":
                return obj.name
            m = obj.lookup(attr)
            if m is not None:
                return m
            if attr in obj.attrs:
                return obj.attrs[attr]
            raise PyRaise(ExcVal("AttributeError", (attr,)))
        if isinstance(obj, SliceV):
            return {"start": obj.start, "stop": obj.stop, "step": obj.step}[attr]
        from .lib_builtin import builtin_getattr
        return builtin_getattr(self, obj, attr, node)


class OptV:
    """Optional value with a symbolic None-ness flag (rarely needed)"""

    def __init__(self, is_none, value):
        self.is_none = is_none
        self.value = value


def _symbolic(x):
    if isinstance(x, (z3.ExprRef, Arr, Quot, RealV, SymList, SegList, ConcatList, SymMap, GenV)):
        return True
    if isinstance(x, (tuple, list)):
        return any(_symbolic(y) for y in x)
    if hasattr(x, "pyvc_symbolic"):
        return True
    return False


def _as_load(node):
    import copy
    n = copy.deepcopy(node)
    for x in ast.walk(n):
        if hasattr(x, "ctx"):
            x.ctx = ast.Load()
    return n


Engine.inline_ok = set()
