"""Symbolic value domain of the pyvc executor."""
from __future__ import annotations

import z3


class Unsupported(Exception):
    """construct / callee outside the executor's subset -> checker error (exit 3)"""


class MissingContract(Unsupported):
    pass


class PathEnd(Exception):
    """current path is finished (cut at loop back-edge, or infeasible)"""


class ReturnEx(Exception):
    def __init__(self, value):
        self.value = value


class BreakEx(Exception):
    pass


class ContinueEx(Exception):
    pass


class ExcVal:
    def __init__(self, cls, args=(), cause=None):
        self.cls = cls
        self.args = tuple(args)
        self.cause = cause

    def __repr__(self):
        return f"ExcVal({self.cls})"


class PyRaise(Exception):
    """a Python exception raised by the analysed program"""

    def __init__(self, exc: ExcVal):
        self.exc = exc


EXC_BASES = {
    "BaseException": None,
    "Exception": "BaseException",
    "ArithmeticError": "Exception",
    "ZeroDivisionError": "ArithmeticError",
    "OverflowError": "ArithmeticError",
    "LookupError": "Exception",
    "KeyError": "LookupError",
    "IndexError": "LookupError",
    "ValueError": "Exception",
    "TypeError": "Exception",
    "AttributeError": "Exception",
    "AssertionError": "Exception",
    "NotImplementedError": "RuntimeError",
    "RuntimeError": "Exception",
    "StopIteration": "Exception",
    "OSError": "Exception",
    "IOError": "OSError",
    "FileNotFoundError": "OSError",
    "ImportError": "Exception",
    "NameError": "Exception",
    "UnboundLocalError": "NameError",
    "BadInputError": "ValueError",
}


def exc_is(cls: str, target: str) -> bool:
    while cls is not None:
        if cls == target:
            return True
        cls = EXC_BASES.get(cls, "Exception" if cls != "BaseException" else None)
        if cls == "Exception" and target == "Exception":
            return True
    return False


class ExcClass:
    """an exception class as a first-class value (callable to build ExcVal)"""

    def __init__(self, name):
        self.name = name

    def __repr__(self):
        return f"<exc {self.name}>"


# ---------------------------------------------------------------- arrays

SORTS = {
    "int": z3.IntSort(),
    "bool": z3.BoolSort(),
    "real": z3.RealSort(),
    "str": z3.StringSort(),
}


class Arr:
    """1-D array of symbolic length.  ``at(k)`` gives the element term at index
    term ``k`` (no bounds check: callers generate bounds obligations)."""

    def __init__(self, n, at, kind="int", dtype=None, name=None):
        self.n = n if isinstance(n, z3.ExprRef) else z3.IntVal(int(n))
        self.at = at
        self.kind = kind
        self.dtype = dtype
        self.name = name

    def __getitem__(self, k):  # spec-level access (contracts): unchecked
        return self.at(k if isinstance(k, z3.ExprRef) else z3.IntVal(int(k)))

    def __len__(self):
        raise TypeError("symbolic length: use .n")

    def __repr__(self):
        return f"Arr({self.name or '?'}, n={self.n}, {self.kind})"


class Quot:
    """true division a / b of two integer terms, kept exact (profile F-int)"""

    def __init__(self, num, den):
        self.num = num
        self.den = den


class RealV:
    """real-number value (profile F-real): z3 Real term"""

    def __init__(self, term):
        self.term = term


class SliceV:
    def __init__(self, start, stop, step=None):
        self.start, self.stop, self.step = start, stop, step

    def __repr__(self):
        return f"slice({self.start},{self.stop},{self.step})"


class RangeV:
    def __init__(self, start, stop, step=1):
        self.start, self.stop, self.step = start, stop, step


class ZipV:
    def __init__(self, parts, strict=False):
        self.parts = parts


class EnumV:
    def __init__(self, inner, start=0):
        self.inner = inner
        self.start = start


class SymList:
    """list of symbolic length; at(k) returns an arbitrary value built from k"""

    def __init__(self, n, at, name=None):
        self.n = n if isinstance(n, z3.ExprRef) else z3.IntVal(int(n))
        self.at = at
        self.name = name

    def __getitem__(self, k):  # spec-level access (contracts): unchecked
        return self.at(k if isinstance(k, z3.ExprRef) else z3.IntVal(int(k)))


class SegList:
    """concatenation of concrete elements and SymLists (a Python list whose
    length is symbolic only through its SymList segments)"""

    def __init__(self, segs=None):
        self.segs = list(segs or [])  # each: ('one', v) | ('many', SymList)


class ConcatList:
    """a Python list of arrays that is only ever appended to and finally
    concatenated: abstracted to (number of appends, flat concatenation)"""

    def __init__(self, count, flat: Arr):
        self.count = count
        self.flat = flat


class GenV:
    """result of a generator (evaluated eagerly): the yielded values"""

    def __init__(self, items):
        self.items = items  # python list | SymList
        self.pos = 0


class Obj:
    def __init__(self, cls, attrs=None):
        self.cls = cls  # ClassInfo
        self.attrs = dict(attrs or {})

    def __repr__(self):
        return f"<Obj {getattr(self.cls, 'name', self.cls)}>"


class ClassInfo:
    def __init__(self, name, module, node, bases):
        self.name = name
        self.module = module
        self.node = node
        self.bases = bases  # list of ClassInfo / other
        self.methods = {}
        self.attrs = {}
        self.props = {}

    def lookup(self, name):
        if name in self.methods:
            return self.methods[name]
        for b in self.bases:
            if isinstance(b, ClassInfo):
                r = b.lookup(name)
                if r is not None:
                    return r
        return None

    def lookup_prop(self, name):
        if name in self.props:
            return self.props[name]
        for b in self.bases:
            if isinstance(b, ClassInfo):
                r = b.lookup_prop(name)
                if r is not None:
                    return r
        return None

    def is_subclass(self, other):
        if self is other:
            return True
        return any(isinstance(b, ClassInfo) and b.is_subclass(other) for b in self.bases)

    def __repr__(self):
        return f"<class {self.name}>"


class Closure:
    def __init__(self, node, env, module, qualname, cls=None):
        self.node = node
        self.env = env
        self.module = module
        self.qualname = qualname
        self.cls = cls

    def __repr__(self):
        return f"<fn {self.module.name}:{self.qualname}>"


class BoundMethod:
    def __init__(self, obj, func):
        self.obj = obj
        self.func = func


class LibFunc:
    """assumed-contract model of a library function: fn(interp, *args, **kw)"""

    def __init__(self, name, fn):
        self.name = name
        self.fn = fn

    def __repr__(self):
        return f"<lib {self.name}>"


class LibNS:
    """namespace of library models (np, pd, ...)"""

    def __init__(self, name, members=None):
        self._name = name
        self._members = dict(members or {})

    def get(self, attr):
        if attr in self._members:
            return self._members[attr]
        raise Unsupported(f"library member {self._name}.{attr} has no assumed contract")

    def __repr__(self):
        return f"<libns {self._name}>"


class Composed:
    """cytoolz.compose(f, g, ...)"""

    def __init__(self, funcs):
        self.funcs = list(funcs)


class Partial:
    def __init__(self, func, args, kwargs):
        self.func, self.args, self.kwargs = func, list(args), dict(kwargs)


class SymMap:
    """mapping with symbolic keys: has(key)->Bool term, get(key)->value"""

    def __init__(self, has, get, name=None, keys=None):
        self.has = has
        self.get = get
        self.name = name
        self.keys = keys  # optional SymList / list of keys (ordered)


class Opaque:
    def __init__(self, tag):
        self.tag = tag

    def __repr__(self):
        return f"<opaque {self.tag}>"


class DTypeV:
    def __init__(self, name):
        self.name = name

    def __repr__(self):
        return f"dtype({self.name})"

    def __eq__(self, o):
        return isinstance(o, DTypeV) and o.name == self.name

    def __hash__(self):
        return hash(self.name)


def is_z3(x):
    return isinstance(x, z3.ExprRef)


def is_int_term(x):
    return isinstance(x, z3.ArithRef) and x.is_int()


def is_bool_term(x):
    return isinstance(x, z3.BoolRef)


def to_term(x):
    """python scalar -> z3 term"""
    if isinstance(x, z3.ExprRef):
        return x
    if isinstance(x, bool):
        return z3.BoolVal(x)
    if isinstance(x, int):
        return z3.IntVal(x)
    if isinstance(x, str):
        return z3.StringVal(x)
    if isinstance(x, float):
        if x == int(x):
            return z3.RealVal(int(x))
        return z3.RealVal(repr(x))
    raise Unsupported(f"cannot turn {type(x).__name__} into a term")


class MaybeNaN:
    """a scalar that is either NaN or an integer (rlencode's last_val sentinel)"""
    pyvc_symbolic = True

    def __init__(self, isnan, val):
        self.isnan = isnan if isinstance(isnan, z3.ExprRef) else z3.BoolVal(bool(isnan))
        self.val = val

    def pyvc_compare(self, I, op, a, b):
        import ast as _ast
        other = b if a is self else a
        if isinstance(other, MaybeNaN):
            raise Unsupported("NaN vs NaN comparison")
        o = to_term(other)
        if isinstance(op, _ast.NotEq):
            return z3.Or(self.isnan, o != self.val)
        if isinstance(op, _ast.Eq):
            return z3.And(z3.Not(self.isnan), o == self.val)
        raise Unsupported("ordering against a possibly-NaN value")

    pyvc_rcompare = pyvc_compare

    def pyvc_havoc(self, I, nm):
        return MaybeNaN(I.path.fresh_bool(nm + ".isnan"), I.path.fresh_int(nm))


def nan_view(x):
    """(isnan, value) of a MaybeNaN or a plain integer term"""
    if isinstance(x, MaybeNaN):
        return x.isnan, x.val
    return z3.BoolVal(False), to_term(x)
