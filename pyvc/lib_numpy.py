"""Assumed contracts for the numpy primitives the verified functions use.

Every function here is an ASSUMPTION (trusted base), written as for-all-only
axioms over the array abstraction (len, at).  Each has an executable audit in
/verif/libspec_audit.py that runs the real numpy on boundary + random inputs
and evaluates the same statement.
"""
from __future__ import annotations

import ast

import z3

from . import spec
from .values import (Arr, ConcatList, DTypeV, ExcVal, GenV, LibFunc, LibNS, Opaque,
                     PyRaise, Quot, RealV, SegList, SliceV, SymList, Unsupported,
                     is_z3, to_term)

USED = set()


def _use(name):
    USED.add("numpy." + name)


def elem_term(x, kind):
    if isinstance(x, RealV):
        return x.term
    t = to_term(x)
    if kind == "real" and z3.is_int(t):
        return z3.ToReal(t)
    return t


def kind_of(x):
    if isinstance(x, Arr):
        return x.kind
    if isinstance(x, (bool, z3.BoolRef)):
        return "bool"
    if isinstance(x, int) or (isinstance(x, z3.ArithRef) and x.is_int()):
        return "int"
    if isinstance(x, (float, RealV, Quot)) or (isinstance(x, z3.ArithRef) and x.is_real()):
        return "real"
    if isinstance(x, (str, z3.SeqRef)):
        return "str"
    return "any"


def as_arr(I, x, what="array"):
    if isinstance(x, Arr):
        return x
    if isinstance(x, (list, tuple)):
        if not x:
            return Arr(0, lambda k: z3.IntVal(0), "int")
        kind = kind_of(x[0])
        if any(isinstance(e, (Arr, list, tuple)) for e in x):
            raise Unsupported("nested array literal")
        terms = [elem_term(e, kind) for e in x]

        def at(k, terms=terms):
            r = terms[-1]
            for i in range(len(terms) - 2, -1, -1):
                r = z3.If(k == i, terms[i], r)
            return r
        return Arr(len(terms), at, kind)
    if isinstance(x, SymList):
        return Arr(x.n, x.at, "int")
    if isinstance(x, GenV):
        return as_arr(I, x.items, what)
    h = getattr(x, "pyvc_asarray", None)
    if h is not None:
        return h(I)
    raise Unsupported(f"{what}: cannot view {type(x).__name__} as an array")


def same_len(I, a: Arr, b: Arr, node):
    if a.n is b.n:
        return
    I.path.oblige("shape", f"{I.path.ordinal('shape')}", a.n == b.n, getattr(node, "lineno", None),
                  note="operands must have equal length")
    I.path.assume(a.n == b.n)


def arr_binop(I, op, a, b, node):
    from .floats import as_real

    def scal(op, x, y, kind):
        if kind == "real":
            x, y = as_real(x), as_real(y)
        if isinstance(op, ast.Add):
            return x + y
        if isinstance(op, ast.Sub):
            return x - y
        if isinstance(op, ast.Mult):
            return x * y
        if isinstance(op, ast.FloorDiv):
            return z3.If(y > 0, x / y, (-x) / (-y))
        if isinstance(op, ast.Mod):
            return z3.If(y > 0, x % y, -((-x) % (-y)))
        if isinstance(op, ast.Div):
            return as_real(x) / as_real(y)
        if isinstance(op, ast.BitAnd):
            return z3.And(x, y)
        if isinstance(op, ast.BitOr):
            return z3.Or(x, y)
        if isinstance(op, ast.BitXor):
            return z3.Xor(x, y)
        raise Unsupported("array op " + type(op).__name__)
    ka, kb = kind_of(a), kind_of(b)
    if isinstance(op, (ast.BitAnd, ast.BitOr, ast.BitXor)):
        rk = "bool"
        if ka != "bool" or kb != "bool":
            raise Unsupported("bitwise op on non-bool arrays")
    elif isinstance(op, ast.Div) or "real" in (ka, kb):
        rk = "real"
    else:
        rk = "int"
    if isinstance(op, (ast.FloorDiv, ast.Mod, ast.Div)):
        # division by zero in numpy is a warning, not an exception; the result
        # is unspecified here, so require a non-zero divisor
        if isinstance(b, Arr):
            I.path.oblige("zerodiv", f"{I.path.ordinal('zerodiv')}",
                          spec.forall(0, b.n, lambda k: b.at(k) != 0), getattr(node, "lineno", None))
        else:
            I.path.oblige("zerodiv", f"{I.path.ordinal('zerodiv')}", to_term(b) != 0, getattr(node, "lineno", None))
    # results are fresh arrays (copies): capture the element functions as they are NOW
    if isinstance(a, Arr) and isinstance(b, Arr):
        same_len(I, a, b, node)
        fa, fb = a.at, b.at
        return Arr(a.n, lambda k: scal(op, fa(k), fb(k), rk), rk)
    if isinstance(a, Arr):
        fa = a.at
        bt = b.term if isinstance(b, RealV) else (as_real(b) if isinstance(b, (Quot, float)) else to_term(b))
        return Arr(a.n, lambda k: scal(op, fa(k), bt, rk), rk, a.dtype if rk == a.kind else None)
    fb = b.at
    at_ = a.term if isinstance(a, RealV) else (as_real(a) if isinstance(a, (Quot, float)) else to_term(a))
    return Arr(b.n, lambda k: scal(op, at_, fb(k), rk), rk, b.dtype if rk == b.kind else None)


def arr_compare(I, op, a, b, node):
    def scal(x, y):
        if isinstance(op, ast.Eq):
            return x == y
        if isinstance(op, ast.NotEq):
            return x != y
        if isinstance(op, ast.Lt):
            return x < y
        if isinstance(op, ast.LtE):
            return x <= y
        if isinstance(op, ast.Gt):
            return x > y
        if isinstance(op, ast.GtE):
            return x >= y
        raise Unsupported("array comparison " + type(op).__name__)
    if isinstance(a, Arr) and isinstance(b, Arr):
        same_len(I, a, b, node)
        fa, fb = a.at, b.at
        return Arr(a.n, lambda k: scal(fa(k), fb(k)), "bool")
    if isinstance(a, Arr):
        fa = a.at
        bt = elem_term(b, a.kind)
        return Arr(a.n, lambda k: scal(fa(k), bt), "bool")
    fb = b.at
    at_ = elem_term(a, b.kind)
    return Arr(b.n, lambda k: scal(at_, fb(k)), "bool")


# ---------------------------------------------------------------- indexing
def mask_filter(I, mask: Arr):
    """numpy boolean-mask indexing: (m, src, rank) shared by every array the
    same mask object is applied to"""
    _use("boolean-mask indexing")
    if getattr(mask, "_filter", None) is not None:
        return mask._filter
    p = I.path
    nm = p.fresh_name("flt")
    m = z3.Int(nm + ".m")
    src = z3.Function(nm + ".src", z3.IntSort(), z3.IntSort())
    rank = z3.Function(nm + ".rank", z3.IntSort(), z3.IntSort())
    n = mask.n
    p.assume(z3.And(m >= 0, m <= n))
    p.assume(spec.forall(0, m, lambda k: z3.And(src(k) >= 0, src(k) < n, mask.at(src(k)), rank(src(k)) == k)))
    p.assume(spec.forall2(0, m, 0, m, lambda k1, k2: z3.Implies(k1 < k2, src(k1) < src(k2))))
    p.assume(spec.forall(0, n, lambda i: z3.Implies(mask.at(i), z3.And(rank(i) >= 0, rank(i) < m, src(rank(i)) == i))))
    mask._filter = (m, src, rank)
    return mask._filter


def arr_getitem(I, a: Arr, key, node):
    if isinstance(key, tuple) and len(key) == 1:
        key = key[0]
    if isinstance(key, (int, z3.ArithRef)) and not isinstance(key, bool):
        idx = I.norm_index(key, a.n, node)
        return a.at(idx)
    if isinstance(key, SliceV):
        if key.step is None or (isinstance(key.step, int) and key.step == 1):
            lo, hi = I.slice_bounds(key, a.n)
            n = z3.simplify(z3.If(hi > lo, hi - lo, z3.IntVal(0)))
            if not z3.is_int_value(n) and I.path.implied(hi >= lo):
                n = z3.simplify(hi - lo)
            return Arr(n, lambda k, lo=lo: a.at(lo + k), a.kind, a.dtype)
        step = key.step
        if (isinstance(step, int) and step > 0) or is_z3(step):
            st = to_term(step)
            if is_z3(step):
                I.path.oblige("pre", f"slice-step-positive#{I.path.ordinal('slicestep')}", st > 0,
                              getattr(node, "lineno", None))
            lo, hi = I.slice_bounds(SliceV(key.start, key.stop), a.n)
            cnt = z3.If(hi > lo, (hi - lo + st - 1) / st, z3.IntVal(0))
            return Arr(cnt, lambda k, lo=lo, st=st: a.at(lo + k * st), a.kind, a.dtype)
        if isinstance(step, int) and step == -1 and key.start is None and key.stop is None:
            return Arr(a.n, lambda k: a.at(a.n - 1 - k), a.kind, a.dtype)
        raise Unsupported("slice step")
    if isinstance(key, Arr) and key.kind == "bool":
        same_len(I, a, key, node)
        m, src, rank = mask_filter(I, key)
        fa = a.at
        r = Arr(m, lambda k: fa(src(k)), a.kind, a.dtype)
        r._filtered_from = (key, fa)      # provenance: used by masked stores  x[mask] = y[mask]
        return r
    if isinstance(key, Arr) and key.kind == "int":
        # fancy indexing: every index must be in bounds
        I.path.oblige("bounds", f"{I.path.ordinal('bounds')}",
                      spec.forall(0, key.n, lambda k: z3.And(key.at(k) >= -a.n, key.at(k) < a.n)),
                      getattr(node, "lineno", None), note="fancy index in bounds")
        I.path.assume(spec.forall(0, key.n, lambda k: z3.And(key.at(k) >= -a.n, key.at(k) < a.n)))
        return Arr(key.n, lambda k: a.at(z3.If(key.at(k) < 0, key.at(k) + a.n, key.at(k))), a.kind, a.dtype)
    if isinstance(key, (list, tuple)):
        return arr_getitem(I, a, as_arr(I, list(key)), node)
    if key is Ellipsis:
        return a
    raise Unsupported(f"array index {type(key).__name__}")


def arr_concat(parts):
    parts = list(parts)
    kind = "int"
    for p in parts:
        if p.kind != "int":
            kind = p.kind
    total = parts[0].n
    offs = [z3.IntVal(0)]
    for p in parts[1:]:
        offs.append(total)
        total = total + p.n
    total = z3.simplify(total)

    def at(k):
        r = parts[-1].at(k - offs[-1])
        for i in range(len(parts) - 2, -1, -1):
            r = z3.If(k < offs[i + 1], parts[i].at(k - offs[i]), r)
        return r
    return Arr(total, at, kind, parts[0].dtype)


def arr_getattr(I, a: Arr, attr, node):
    def m(fn):
        return LibFunc("ndarray." + attr, fn)
    if attr == "dtype":
        return DTypeV(a.dtype or {"int": "int64", "real": "float64", "bool": "bool"}.get(a.kind, "object"))
    if attr in ("values", "T"):
        return a
    if attr == "shape":
        return (a.n,)
    if attr == "size":
        return a.n
    if attr == "ndim":
        return 1
    if attr == "astype":
        def astype(I, t=None, **kw):
            if hasattr(t, "pyvc_astype"):       # a contract's own model of a conversion (e.g. the dtype of a ghost dataset)
                return t.pyvc_astype(I, a)
            tn = dtype_name(t)
            if tn in ("int", "int64", "int32", "uint64", "uint32") and a.kind == "int":
                return Arr(a.n, a.at, "int", tn if tn != "int" else "int64")
            if tn in ("float", "float64") and a.kind in ("int", "real"):
                return Arr(a.n, (lambda k: z3.ToReal(a.at(k))) if a.kind == "int" else a.at, "real", "float64")
            if tn == "bool" and a.kind == "bool":
                return a
            if tn in ("int", "int64") and a.kind == "bool":
                return Arr(a.n, lambda k: z3.If(a.at(k), 1, 0), "int", "int64")
            raise Unsupported(f"astype({tn}) of {a.kind} array")
        return m(astype)
    if attr == "copy":
        return m(lambda I, **kw: Arr(a.n, a.at, a.kind, a.dtype))
    if attr == "searchsorted":
        return m(lambda I, v, side="left", **kw: np_searchsorted(I, a, v, side))
    if attr == "tolist":
        return m(lambda I: SymList(a.n, a.at))
    if attr == "any":
        return m(lambda I, **kw: np_any(I, a))
    if attr == "all":
        return m(lambda I, **kw: np_all(I, a))
    if attr == "sum":
        return m(lambda I, **kw: np_sum(I, a))
    if attr == "item":
        def item(I):
            I.path.oblige("pre", f"item-size-1#{I.path.ordinal('item')}", a.n == 1)
            return a.at(z3.IntVal(0))
        return m(item)
    if attr == "unique":
        return m(lambda I: np_unique(I, a))
    if attr == "iloc":
        return ILoc(a)
    if attr == "min":
        return m(lambda I, **kw: np_min(I, a))
    if attr == "max":
        return m(lambda I, **kw: np_max(I, a))
    raise Unsupported(f"ndarray.{attr}")


class ILoc:
    def __init__(self, a):
        self.a = a

    def pyvc_getitem(self, I, key, node):
        return arr_getitem(I, self.a, key, node)


def dtype_name(t):
    if t is None:
        return None
    if isinstance(t, DTypeV):
        return t.name
    if isinstance(t, str):
        return {"i8": "int64", "i4": "int32", "f8": "float64"}.get(t, t)
    if isinstance(t, LibFunc):
        n = t.name
        return {"int": "int64", "float": "float64"}.get(n, n)
    return str(t)


# ---------------------------------------------------------------- functions
def np_floor(I, x):
    from .floats import real_floor
    if isinstance(x, (int,)) or (isinstance(x, z3.ArithRef) and x.is_int()):
        return x
    if isinstance(x, Arr):
        if x.kind == "int":
            return x
        return Arr(x.n, lambda k: z3.ToInt(x.at(k)), "int", "float64")
    return real_floor(I, x)


def np_ceil(I, x):
    from .floats import real_ceil
    if isinstance(x, (int,)) or (isinstance(x, z3.ArithRef) and x.is_int()):
        return x
    if isinstance(x, Arr):
        if x.kind == "int":
            return x
        return Arr(x.n, lambda k: -z3.ToInt(-x.at(k)), "int", "float64")
    return real_ceil(I, x)


def sorted_cond(a: Arr):
    return spec.forall2(0, a.n, 0, a.n, lambda k1, k2: z3.Implies(k1 <= k2, a.at(k1) <= a.at(k2)))


def np_searchsorted(I, a, v, side="left", sorter=None):
    """numpy.searchsorted on a non-decreasing array.
    requires: a sorted (numpy does not check; on unsorted input the result is
    unspecified, so sortedness is a precondition obligation at every call)
    ensures (scalar v): 0<=p<=n, all a[k<p] < v (left) / <= v (right),
                        all a[k>=p] >= v (left) / > v (right)"""
    _use("searchsorted")
    a = as_arr(I, a)
    p = I.path
    ordn = p.ordinal("searchsorted")
    p.oblige("pre", f"np.searchsorted#{ordn}.sorted", sorted_cond(a))
    if side not in ("left", "right"):
        raise Unsupported("searchsorted side")

    def facts(pos, val):
        if side == "left":
            return [z3.And(pos >= 0, pos <= a.n),
                    spec.forall(0, pos, lambda k: a.at(k) < val),
                    spec.forall(pos, a.n, lambda k: a.at(k) >= val)]
        return [z3.And(pos >= 0, pos <= a.n),
                spec.forall(0, pos, lambda k: a.at(k) <= val),
                spec.forall(pos, a.n, lambda k: a.at(k) > val)]
    if isinstance(v, (SymList, list, tuple)) and not isinstance(v, Arr):
        v = as_arr(I, v)
    if isinstance(v, Arr):
        nm = p.fresh_name("ss")
        f = z3.Function(nm, z3.IntSort(), z3.IntSort())
        # flat (two-variable) form of the per-element contract
        p.assume(spec.forall(0, v.n, lambda j: z3.And(f(j) >= 0, f(j) <= a.n)))
        if side == "left":
            p.assume(spec.forall2(0, v.n, 0, a.n, lambda j, k: z3.And(
                z3.Implies(k < f(j), a.at(k) < v.at(j)), z3.Implies(k >= f(j), a.at(k) >= v.at(j)))))
        else:
            p.assume(spec.forall2(0, v.n, 0, a.n, lambda j, k: z3.And(
                z3.Implies(k < f(j), a.at(k) <= v.at(j)), z3.Implies(k >= f(j), a.at(k) > v.at(j)))))
        return Arr(v.n, lambda k: f(k), "int", "int64", name=nm)
    val = elem_term(v, a.kind)
    pos = p.fresh_int("ss")
    for fc in facts(pos, val):
        p.assume(fc)
    return pos


def _close(f):
    return f if is_z3(f) else z3.BoolVal(bool(f))


def np_arange(I, *a, dtype=None, **kw):
    _use("arange")
    if len(a) == 1:
        lo, hi, st = 0, a[0], 1
    elif len(a) == 2:
        lo, hi, st = a[0], a[1], 1
    else:
        lo, hi, st = a
    lo, hi = to_term(lo), to_term(hi)
    if isinstance(st, int) and st == 1:
        n = z3.If(hi > lo, hi - lo, z3.IntVal(0))
        return Arr(z3.simplify(n), lambda k: lo + k, "int", "int64")
    stt = to_term(st)
    I.path.oblige("pre", f"np.arange#{I.path.ordinal('arange')}.step-positive", stt > 0)
    n = z3.If(hi > lo, (hi - lo + stt - 1) / stt, z3.IntVal(0))
    return Arr(n, lambda k: lo + k * stt, "int", "int64")


def np_linspace(I, lo, hi, num, dtype=None, **kw):
    """numpy.linspace(lo, hi, num, dtype=int), integers lo<=hi, num>=2.
    ensures: len == num, [0]==lo, [num-1]==hi, lo<=x[j]<=hi, non-decreasing.
    (the exact interior values floor(lo + j*(hi-lo)/(num-1)) are not stated:
     nothing verified depends on them)"""
    _use("linspace(dtype=int)")
    tn = dtype_name(dtype)
    if tn not in ("int", "int64"):
        raise Unsupported("linspace without dtype=int")
    lo, hi, num = to_term(lo), to_term(hi), to_term(num)
    p = I.path
    ordn = p.ordinal("linspace")
    p.oblige("pre", f"np.linspace#{ordn}.num>=2", num >= 2)
    p.oblige("pre", f"np.linspace#{ordn}.lo<=hi", lo <= hi)
    a = p.fresh_arr("linspace", "int", n=num)
    p.assume(a.at(z3.IntVal(0)) == lo)
    p.assume(a.at(num - 1) == hi)
    p.assume(spec.forall(0, num, lambda k: z3.And(a.at(k) >= lo, a.at(k) <= hi)))
    p.assume(sorted_cond(a))
    return a


def np_unique(I, a, **kw):
    """numpy.unique: strictly increasing array with the same value set"""
    _use("unique")
    if kw:
        raise Unsupported("np.unique options")
    a = as_arr(I, a)
    p = I.path
    nm = p.fresh_name("uniq")
    u = p.fresh_arr(nm, a.kind)
    pos = z3.Function(nm + ".pos", z3.IntSort(), z3.IntSort())
    rank = z3.Function(nm + ".rank", z3.IntSort(), z3.IntSort())
    p.assume(z3.And(u.n <= a.n, z3.Implies(a.n > 0, u.n > 0)))
    p.assume(spec.forall(0, u.n, lambda k: z3.And(pos(k) >= 0, pos(k) < a.n, a.at(pos(k)) == u.at(k))))
    p.assume(spec.forall(0, a.n, lambda j: z3.And(rank(j) >= 0, rank(j) < u.n, u.at(rank(j)) == a.at(j))))
    p.assume(spec.forall2(0, u.n, 0, u.n, lambda k1, k2: z3.Implies(k1 < k2, u.at(k1) < u.at(k2))))
    return u


def np_array(I, x, dtype=None, **kw):
    if isinstance(x, Arr):
        return Arr(x.n, x.at, x.kind, x.dtype)
    if isinstance(x, (list, tuple)) and len(x) == 0:
        tn = dtype_name(dtype)
        kind = "real" if tn in ("float", "float64") else ("bool" if tn == "bool" else "int")
        return Arr(0, lambda k: to_term(0) if kind == "int" else (z3.RealVal(0) if kind == "real" else z3.BoolVal(False)), kind, tn)
    return as_arr(I, x)


def np_asarray(I, x, dtype=None, **kw):
    if isinstance(x, Arr):
        return x
    return np_array(I, x, dtype)


def np_empty(I, shape, dtype=None, **kw):
    n = shape[0] if isinstance(shape, tuple) else shape
    if isinstance(n, int) and n == 0:
        return np_array(I, [], dtype)
    # uninitialised contents: fresh
    tn = dtype_name(dtype)
    kind = "real" if tn in ("float", "float64") else "int"
    return I.path.fresh_arr("empty", kind, n=to_term(n), dtype=tn)


def np_full(I, shape, val, dtype=None, **kw):
    n = shape[0] if isinstance(shape, tuple) else shape
    tn = dtype_name(dtype)
    kind = kind_of(val)
    v = elem_term(val, kind)
    return Arr(to_term(n), lambda k: v, kind, tn)


def np_zeros(I, shape, dtype=None, **kw):
    tn = dtype_name(dtype)
    if tn in (None, "float", "float64"):
        return np_full(I, shape, RealV(z3.RealVal(0)), dtype)
    if tn == "bool":
        return np_full(I, shape, False, dtype)
    return np_full(I, shape, 0, dtype)


def np_ones(I, shape, dtype=None, **kw):
    tn = dtype_name(dtype)
    if tn in (None, "float", "float64"):
        return np_full(I, shape, RealV(z3.RealVal(1)), dtype)
    if tn == "bool":
        return np_full(I, shape, True, dtype)
    return np_full(I, shape, 1, dtype)


def np_concatenate(I, parts, axis=0, **kw):
    _use("concatenate")
    if isinstance(parts, ConcatList):
        I.path.oblige("pre", f"np.concatenate#{I.path.ordinal('concat')}.nonempty-list", parts.count >= 1)
        return parts.flat
    items = I.concrete_items(parts)
    if items is None:
        raise Unsupported("np.concatenate over a symbolic list (declare it a ConcatList in the loop spec)")
    if not items:
        raise PyRaise(ExcVal("ValueError", ("need at least one array to concatenate",)))
    return arr_concat([as_arr(I, x) for x in items])


class R_:
    def pyvc_getitem(self, I, key, node):
        _use("r_")
        parts = key if isinstance(key, tuple) else (key,)
        arrs = []
        for p in parts:
            if isinstance(p, Arr):
                arrs.append(p)
            elif isinstance(p, (list, tuple)):
                arrs.append(as_arr(I, p))
            elif isinstance(p, SliceV):
                raise Unsupported("np.r_ with slice")
            else:
                k = kind_of(p)
                t = elem_term(p, k)
                arrs.append(Arr(1, lambda kk, t=t: t, k))
        return arr_concat(arrs)


def np_flatnonzero(I, a):
    """indices of the true entries, increasing"""
    _use("flatnonzero")
    a = as_arr(I, a)
    if a.kind != "bool":
        a = Arr(a.n, lambda k: a.at(k) != 0, "bool")
    m, src, rank = mask_filter(I, a)
    I.path.ghost["last_mask"] = (m, src, rank)
    return Arr(m, lambda k: src(k), "int", "int64")


def np_diff(I, a, **kw):
    _use("diff")
    a = as_arr(I, a)
    n = z3.If(a.n > 0, a.n - 1, z3.IntVal(0))
    r = Arr(n, lambda k: a.at(k + 1) - a.at(k), a.kind, a.dtype)
    r._diff_of = a
    return r


def np_cumsum(I, a, **kw):
    """c[0]=a[0], c[k]=c[k-1]+a[k]"""
    _use("cumsum")
    a = as_arr(I, a)
    src = getattr(a, "_diff_of", None)
    if src is not None:
        # cumsum(diff(x))[k] == x[k+1] - x[0]: the telescoping sum, an induction over the cumsum
        # recurrence (base and step are discharged as lemma obligations: lemmas/telescope in
        # contracts/partition.py); used in closed form
        I.path.assumptions_used.add("instance of lemma cumsum-of-diff-telescopes (proved separately by induction)")
        fs = src.at
        return Arr(a.n, lambda k: fs(k + 1) - fs(z3.IntVal(0)), a.kind, a.dtype)
    c = I.path.fresh_arr("cumsum", a.kind, n=a.n)
    I.path.assume(z3.Implies(a.n > 0, c.at(z3.IntVal(0)) == a.at(z3.IntVal(0))))
    I.path.assume(spec.forall(1, a.n, lambda k: c.at(k) == c.at(k - 1) + a.at(k)))
    return c


def np_any(I, a, **kw):
    _use("any")
    a = as_arr(I, a)
    b = I.path.fresh_bool("any")
    # b <-> exists k: a[k]; stated with a witness function to stay for-all only
    w = I.path.fresh_int("any.w")
    I.path.assume(z3.Implies(b, z3.And(w >= 0, w < a.n, a.at(w))))
    I.path.assume(z3.Implies(z3.Not(b), spec.forall(0, a.n, lambda k: z3.Not(a.at(k)))))
    return b


def np_all(I, a, **kw):
    _use("all")
    a = as_arr(I, a)
    b = I.path.fresh_bool("all")
    w = I.path.fresh_int("all.w")
    I.path.assume(z3.Implies(z3.Not(b), z3.And(w >= 0, w < a.n, z3.Not(a.at(w)))))
    I.path.assume(z3.Implies(b, spec.forall(0, a.n, lambda k: a.at(k))))
    return b


def np_sum(I, a, **kw):
    """sum of a BOOLEAN array = number of true entries: c in [0, n], c == 0 iff none is true
    (partial contract: the exact count is not stated)"""
    a = as_arr(I, a)
    if a.kind != "bool" and getattr(a, "_sum_term", None) is not None:
        # the contract names the sum of this array (a definitional ghost term, e.g. csum(j) for chunk j)
        return a._sum_term
    if a.kind != "bool":
        raise Unsupported("np.sum of a non-boolean array needs a contract-level abstraction")
    _use("sum(bool array) = count")
    c = I.path.fresh_int("count")
    I.path.assume(z3.And(c >= 0, c <= a.n))
    I.path.assume(z3.Implies(c == 0, spec.forall(0, a.n, lambda k: z3.Not(a.at(k)))))
    w = I.path.fresh_int("count.w")
    I.path.assume(z3.Implies(c > 0, z3.And(w >= 0, w < a.n, a.at(w))))
    return c


def np_min(I, a, **kw):
    _use("min")
    a = as_arr(I, a)
    I.path.oblige("pre", f"np.min#{I.path.ordinal('min')}.nonempty", a.n > 0)
    r = I.path.fresh_int("min")
    w = I.path.fresh_int("min.w")
    I.path.assume(z3.And(w >= 0, w < a.n, a.at(w) == r))
    I.path.assume(spec.forall(0, a.n, lambda k: a.at(k) >= r))
    return r


def np_max(I, a, **kw):
    _use("max")
    a = as_arr(I, a)
    I.path.oblige("pre", f"np.max#{I.path.ordinal('max')}.nonempty", a.n > 0)
    r = I.path.fresh_int("max")
    w = I.path.fresh_int("max.w")
    I.path.assume(z3.And(w >= 0, w < a.n, a.at(w) == r))
    I.path.assume(spec.forall(0, a.n, lambda k: a.at(k) <= r))
    return r


def np_sqrt(I, x):
    """real square root: r >= 0 and r*r == x (x >= 0)"""
    _use("sqrt")
    from .floats import as_real
    rx = as_real(x)
    I.path.oblige("pre", f"np.sqrt#{I.path.ordinal('sqrt')}.nonneg", rx >= 0)
    r = I.path.fresh_real("sqrt")
    I.path.assume(z3.And(r >= 0, r * r == rx))
    I.path.assumptions_used.add(
        "FSQRT64: int(np.sqrt(n)) equals the exact floor square root for 0 <= n < 2^52 (DESIGN.md s8)")
    return RealV(r)


def np_abs(I, x):
    if isinstance(x, Arr):
        fx = x.at
        return Arr(x.n, lambda k: z3.If(fx(k) >= 0, fx(k), -fx(k)), x.kind, x.dtype)
    if isinstance(x, (int, float)):
        return abs(x)
    if isinstance(x, z3.ArithRef):
        return z3.If(x >= 0, x, -x)
    h = getattr(x, "pyvc_asarray", None)
    if h is not None:
        return np_abs(I, h(I))
    raise Unsupported("np.abs of " + type(x).__name__)


def np_reciprocal(I, x, out=None, **kw):
    """numpy.reciprocal(x[, out]): 1/x elementwise; with out= the result is written INTO that array
    (which may alias x or any other name bound to the same array)"""
    from .floats import as_real
    _use("reciprocal")
    x = as_arr(I, x)
    fx = x.at
    I.path.oblige("zerodiv", f"{I.path.ordinal('zerodiv')}", spec.forall(0, x.n, lambda k: as_real(fx(k)) != 0))
    f = lambda k: 1 / as_real(fx(k))
    if out is not None:
        if not isinstance(out, Arr):
            raise Unsupported("reciprocal(out=...) with a non-array")
        out.at = f
        out.kind = "real"
        return out
    return Arr(x.n, f, "real")


def np_where(I, c, a=None, b=None):
    if a is None:
        raise Unsupported("np.where with one argument")
    c = as_arr(I, c)
    ka = kind_of(a)

    def pick(x, k):
        return x.at(k) if isinstance(x, Arr) else elem_term(x, ka)
    return Arr(c.n, lambda k: z3.If(c.at(k), pick(a, k), pick(b, k)), ka)


def np_isnan(I, x):
    raise Unsupported("np.isnan outside the F-real profile")


class _NaNConst:
    """np.nan as a read-only constant; comparisons go through MaybeNaN"""


from .values import MaybeNaN as _MaybeNaN  # noqa: E402
NAN = _MaybeNaN(True, z3.IntVal(0))


def mk_dtype(name):
    def ctor(I, x=0, *a, **k):
        if isinstance(x, (int, z3.ArithRef)):
            return x
        if isinstance(x, Arr):
            return x
        if isinstance(x, (Quot, RealV, float)) and name.startswith("int"):
            from .floats import real_trunc
            return real_trunc(I, x)
        return x
    lf = LibFunc(name, ctor)
    lf.check = lambda x, name=name: (name.startswith("int") and isinstance(x, int)) is True and False
    return lf


def np_isin(I, element, test_elements, **kw):
    """numpy.isin(a, test): elementwise membership.  numpy converts `test` with asarray: a Python SET becomes ONE object element,
    so no integer of `a` equals it and the result is all False (documented: "isin does not work on sets")."""
    _use("isin")
    a = as_arr(I, element)
    if kw.get("invert"):
        raise Unsupported("np.isin(invert=True)")
    if isinstance(test_elements, (set, frozenset)) or hasattr(test_elements, "pyvc_toset"):
        I.path.assumptions_used.add("numpy.isin with a set as second argument is all False (numpy documentation)")
        return Arr(a.n, lambda k: z3.BoolVal(False), "bool")
    if isinstance(test_elements, (list, tuple)):
        items = [to_term(x) for x in test_elements]
        fa = a.at
        return Arr(a.n, lambda k: z3.Or(*[fa(k) == x for x in items]) if items else z3.BoolVal(False), "bool")
    if isinstance(test_elements, Arr):
        t = test_elements
        fa = a.at
        return Arr(a.n, lambda k: spec.exists(0, t.n, lambda j: t.at(j) == fa(k)), "bool")
    raise Unsupported("np.isin with test elements of type " + type(test_elements).__name__)


def install(engine):
    F = LibFunc
    np = LibNS("numpy", {
        "isin": F("np.isin", np_isin),
        "floor": F("np.floor", np_floor), "ceil": F("np.ceil", np_ceil),
        "searchsorted": F("np.searchsorted", np_searchsorted),
        "arange": F("np.arange", np_arange), "linspace": F("np.linspace", np_linspace),
        "unique": F("np.unique", np_unique), "array": F("np.array", np_array),
        "asarray": F("np.asarray", np_asarray), "empty": F("np.empty", np_empty),
        "full": F("np.full", np_full), "zeros": F("np.zeros", np_zeros), "ones": F("np.ones", np_ones),
        "concatenate": F("np.concatenate", np_concatenate), "r_": R_(),
        "flatnonzero": F("np.flatnonzero", np_flatnonzero), "diff": F("np.diff", np_diff),
        "cumsum": F("np.cumsum", np_cumsum), "any": F("np.any", np_any), "all": F("np.all", np_all),
        "sqrt": F("np.sqrt", np_sqrt), "where": F("np.where", np_where), "abs": F("np.abs", np_abs), "reciprocal": F("np.reciprocal", np_reciprocal),
        "min": F("np.min", np_min), "max": F("np.max", np_max),
        "copy": F("np.copy", lambda I, a, **k: Arr(a.n, a.at, a.kind, a.dtype)),
        "nan": NAN, "inf": Opaque("inf"),
        "int64": mk_dtype("int64"), "int32": mk_dtype("int32"), "float64": mk_dtype("float64"),
        "uint64": mk_dtype("uint64"), "bool_": mk_dtype("bool"), "int_": mk_dtype("int64"),
        "ndarray": Opaque("np.ndarray"), "bytes_": Opaque("np.bytes_"),
        "iinfo": F("np.iinfo", lambda I, t: IInfo(dtype_name(t))),
    })
    engine.lib["numpy"] = np


class IInfo:
    def __init__(self, name):
        self.name = name

    def pyvc_getattr(self, I, attr, node):
        bits = {"int32": 31, "int64": 63, "uint32": 32, "uint64": 64}[self.name]
        if attr == "max":
            return 2 ** bits - 1
        if attr == "min":
            return 0 if self.name.startswith("u") else -(2 ** bits)
        raise Unsupported("iinfo." + attr)
