"""Float profiles.

F-int : a true division of two integers is kept as an exact quotient ``Quot``;
        floor/ceil/int of it are the exact integer results.  Sound for IEEE
        binary64 under assumption FDIV64 (DESIGN.md section 8): integers
        a >= 0, b > 0, a + b < 2**53.  Every use records the assumption.
F-real: reals (z3 Real), NaN handled by the callers that need it.
F-bits: bit-precise binary64 (z3 FloatingPoint) for parse_humanized.
"""
from __future__ import annotations

import ast

import z3

from .values import Quot, RealV, Unsupported, is_z3, to_term, ExcVal, PyRaise

FDIV = "FDIV64: floor/ceil/int of a binary64 quotient of integers a>=0,b>0,a+b<2^53 equals the exact integer result (DESIGN.md s8)"


def as_real(x):
    if isinstance(x, RealV):
        return x.term
    if isinstance(x, Quot):
        return z3.ToReal(x.num) / z3.ToReal(x.den)
    if isinstance(x, bool):
        return z3.RealVal(int(x))
    if isinstance(x, int):
        return z3.RealVal(x)
    if isinstance(x, float):
        if x != x or x in (float("inf"), float("-inf")):
            raise Unsupported("non-finite float constant in F-real")
        from fractions import Fraction
        fr = Fraction(x)
        return z3.RealVal(fr.numerator) / z3.RealVal(fr.denominator)
    if isinstance(x, z3.ArithRef):
        return z3.ToReal(x) if x.is_int() else x
    if isinstance(x, z3.BoolRef):
        return z3.If(x, z3.RealVal(1), z3.RealVal(0))
    raise Unsupported(f"as_real({type(x).__name__})")


def real_binop(I, op, a, b, node):
    if isinstance(a, z3.FPRef) or isinstance(b, z3.FPRef):
        return fp_binop(I, op, a, b, node)
    # Quot * int etc.: stay exact where cheap
    ra, rb = as_real(a), as_real(b)
    if isinstance(op, ast.Add):
        return RealV(ra + rb)
    if isinstance(op, ast.Sub):
        return RealV(ra - rb)
    if isinstance(op, ast.Mult):
        return RealV(ra * rb)
    if isinstance(op, ast.Div):
        I.path.oblige("zerodiv", f"{I.path.ordinal('zerodiv')}", rb != 0, getattr(node, "lineno", None))
        return RealV(ra / rb)
    if isinstance(op, ast.Pow) and isinstance(b, int) and b >= 0:
        r = z3.RealVal(1)
        for _ in range(b):
            r = r * ra
        return RealV(r)
    raise Unsupported(f"real binop {type(op).__name__}")


def real_compare(I, op, a, b, node):
    ra, rb = as_real(a), as_real(b)
    t = {ast.Eq: lambda: ra == rb, ast.NotEq: lambda: ra != rb, ast.Lt: lambda: ra < rb,
         ast.LtE: lambda: ra <= rb, ast.Gt: lambda: ra > rb, ast.GtE: lambda: ra >= rb}
    return t[type(op)]()


def py_floordiv_term(a, b):
    return z3.If(b > 0, a / b, (-a) / (-b))


def real_floor(I, x):
    if isinstance(x, Quot):
        I.path.assumptions_used.add(FDIV)
        return py_floordiv_term(x.num, x.den)
    r = as_real(x)
    return z3.ToInt(r)


def real_ceil(I, x):
    if isinstance(x, Quot):
        I.path.assumptions_used.add(FDIV)
        return -py_floordiv_term(-x.num, x.den)
    r = as_real(x)
    return -z3.ToInt(-r)


def real_trunc(I, x):
    if isinstance(x, Quot):
        I.path.assumptions_used.add(FDIV)
        fl = py_floordiv_term(x.num, x.den)
        ce = -py_floordiv_term(-x.num, x.den)
        nonneg = z3.Or(z3.And(x.num >= 0, x.den > 0), z3.And(x.num <= 0, x.den < 0))
        return z3.If(nonneg, fl, ce)
    r = as_real(x)
    return z3.If(r >= 0, z3.ToInt(r), -z3.ToInt(-r))


# ---------------------------------------------------------------- F-bits
F64 = z3.Float64()
RNE = z3.RNE()
RTZ = z3.RTZ()


def fp_const(x):
    if isinstance(x, z3.FPRef):
        return x
    if isinstance(x, (int, float)):
        return z3.FPVal(float(x), F64)
    if isinstance(x, z3.ArithRef):
        return z3.fpToFP(RNE, z3.ToReal(x) if x.is_int() else x, F64)
    raise Unsupported(f"fp_const({type(x).__name__})")


def fp_binop(I, op, a, b, node):
    fa, fb = fp_const(a), fp_const(b)
    if isinstance(op, ast.Mult):
        return z3.fpMul(RNE, fa, fb)
    if isinstance(op, ast.Add):
        return z3.fpAdd(RNE, fa, fb)
    if isinstance(op, ast.Sub):
        return z3.fpSub(RNE, fa, fb)
    if isinstance(op, ast.Div):
        return z3.fpDiv(RNE, fa, fb)
    raise Unsupported("fp binop")


def fp_to_int(I, x):
    """int(float): truncation toward zero; exact conversion to a mathematical integer"""
    r = z3.fpRoundToIntegral(RTZ, x)
    return z3.ToInt(z3.fpToReal(r))
