"""./check <Cxx> --tier quick|thorough  : decide one property.

exit 0  every obligation generated from /repo's current source discharged,
        bounded stand-in clean (KNOWN-FINDING lines allowed)
exit 1  VIOLATION property=<id> replay=<path>  (refuted obligation that the
        committed baseline lists as proved, or a bounded-tier contract failure)
exit 2  undecided (solver unknown/timeouts only)
exit 3  checker error (unsupported construct, census mismatch, ...)
"""
from __future__ import annotations

import argparse
import importlib
import json
import os
import re
import subprocess
import sys
import time
import traceback

ROOT = os.path.dirname(os.path.dirname(os.path.abspath(__file__)))
sys.path.insert(0, ROOT)

import z3  # noqa: E402

from pyvc import engine, solve  # noqa: E402
from pyvc.values import Arr, Obj, SliceV, Unsupported  # noqa: E402

VENV_PY = "/venv/bin/python"
# where evidence/ and replays/ are written (default: /verif itself; the seeded sweep uses a scratch dir)
OUT = os.environ.get("VERIF_OUT", ROOT)


def load_plan():
    from props import plan
    return plan.PLAN


def import_contracts():
    d = os.path.join(ROOT, "contracts")
    for fn in sorted(os.listdir(d)):
        if fn.endswith(".py") and fn != "__init__.py":
            importlib.import_module("contracts." + fn[:-3])


def base_name(name):
    return name


def _string_terms(val, acc):
    if isinstance(val, z3.SeqRef):
        acc.append(val)
    elif isinstance(val, (tuple, list)):
        for x in val:
            _string_terms(x, acc)
    elif isinstance(val, dict):
        for x in val.values():
            _string_terms(x, acc)


_KEYS = []


def _int_terms(val, acc):
    if isinstance(val, z3.ArithRef) and val.is_int() and z3.is_const(val):
        acc.append(val)
    elif isinstance(val, Arr):
        acc.append(val.n)
    elif isinstance(val, Obj):
        for x in val.attrs.values():
            _int_terms(x, acc)
    elif isinstance(val, (tuple, list)):
        for x in val:
            _int_terms(x, acc)
    elif isinstance(val, dict):
        for x in val.values():
            _int_terms(x, acc)


def concretize(model, val, depth=0):
    """symbolic argument -> JSON-able concrete value under a z3 model"""
    from pyvc.values import SymMap
    if isinstance(val, SymMap):
        out = {}
        for k in _KEYS:
            kv = model.eval(k, model_completion=True)
            ks = kv.as_string() if z3.is_string_value(kv) else str(kv)
            has = model.eval(val.has(k), model_completion=True)
            out[ks] = {"has": bool(z3.is_true(has)), "get": concretize(model, val.get(k))}
        return {"symmap": out}
    if isinstance(val, z3.ExprRef):
        v = model.eval(val, model_completion=True)
        if z3.is_int_value(v):
            return v.as_long()
        if z3.is_true(v):
            return True
        if z3.is_false(v):
            return False
        if z3.is_string_value(v):
            return v.as_string()
        if z3.is_rational_value(v):
            return {"frac": [v.numerator_as_long(), v.denominator_as_long()]}
        return {"term": str(v)}
    if isinstance(val, Arr):
        n = model.eval(val.n, model_completion=True)
        n = n.as_long() if z3.is_int_value(n) else 0
        n = max(0, min(n, 64))
        at0 = getattr(val, "_init_at", None) or val.at
        return {"array": [concretize(model, at0(z3.IntVal(i))) for i in range(n)], "kind": val.kind}
    if isinstance(val, Obj):
        return {"obj": getattr(val.cls, "name", str(val.cls)),
                "attrs": {k: concretize(model, v, depth + 1) for k, v in val.attrs.items()}}
    if isinstance(val, SliceV):
        return {"slice": [concretize(model, x) for x in (val.start, val.stop, val.step)]}
    if isinstance(val, tuple):
        return {"tuple": [concretize(model, x) for x in val]}
    if isinstance(val, list):
        return [concretize(model, x) for x in val]
    if isinstance(val, dict):
        return {"dict": {str(k): concretize(model, v) for k, v in val.items()}}
    if val is None or isinstance(val, (bool, int, float, str)):
        return val
    return {"opaque": type(val).__name__}


class Run:
    def __init__(self, pid, tier, seed):
        self.pid = pid
        self.tier = tier
        self.seed = seed
        self.t0 = time.time()
        self.errors = []
        self.results = []
        self.functions = []
        self.stats = {}
        self.engine = None
        self.violations = []
        self.known = []
        self.undecided = []

    # ---------------------------------------------------------------- prover
    def prove(self, targets, workers, timeout_ms):
        E = engine.Engine()
        self.engine = E
        all_obls = []
        per_fn = {}
        for t in targets:
            try:
                obls, st = E.verify(t)
            except Unsupported as e:
                self.errors.append(f"{t}: unsupported: {e}")
                continue
            except Exception as e:
                self.errors.append(f"{t}: executor crashed: {type(e).__name__}: {e}\n" + traceback.format_exc(limit=6))
                continue
            per_fn[t] = dict(paths=st["paths"], configs=st["configs"], obligations=len(obls))
            for o in obls:
                o.target = t
            all_obls.extend(obls)
        self.functions = per_fn
        self.obls = all_obls
        if not all_obls:
            return
        res = solve.solve_all(all_obls, timeout_ms=timeout_ms, workers=workers, long=(self.tier == 'thorough'))
        self.results = res

    # ---------------------------------------------------------------- summarise
    def summarise(self):
        """group job results by obligation name: an obligation is discharged iff
        every job (every path, every goal conjunct) of that name is proved"""
        by = {}
        for r in self.results:
            nm = re.sub(r"/\d+$", "", r["name"])
            by.setdefault(nm, []).append(r)
        out = {}
        for nm, rs in by.items():
            kinds = {r["status"] for r in rs}
            if nm.split("#", 1)[1].startswith("cover"):
                if "covered" in kinds:
                    st = "covered"
                elif kinds == {"uncovered"}:
                    st = "uncovered"
                else:
                    st = "cover-unknown"
            elif "error" in kinds:
                st = "error"
            elif "refuted" in kinds:
                st = "refuted"
            elif "unknown" in kinds:
                st = "unknown"
            else:
                st = "proved"
            out[nm] = dict(status=st, jobs=len(rs), seconds=sum(r["seconds"] for r in rs),
                           backends=sorted({r["backend"] for r in rs}),
                           worst=[r for r in rs if r["status"] in ("refuted", "unknown", "error")][:8])
        return out


MODEL_FREE_ADAPTERS = {"cooler._reduce:CoolerCoarsener._aggregate", "cooler.api:annotate",
                       "cooler.create._create:create_from_unordered", "cooler.fileops:list_coolers", "cooler.fileops:list_scool_cells",
                       "cooler.fileops:is_scool_file", "cooler.fileops:is_multires_file", "cooler.create._ingest:ArrayLoader.__iter__"}


def replay_refuted(run, name, info, args_by_label):
    """replay the failing paths of one obligation (up to 8) until one counter-model is confirmed on the real
    code; the first path's report is kept when none confirms"""
    first = None
    for n_try, worst in enumerate(info["worst"]):
        rep = _replay_one(run, name, worst)
        rep["paths_tried"] = n_try + 1
        if first is None:
            first = rep
        if rep.get("confirmed_on_real_code"):
            return rep
    first["paths_tried"] = len(info["worst"])
    return first


def _replay_one(run, name, worst):
    """re-solve in process to get a model, concretise the inputs of the
    function under contract and replay on the real code under /venv python"""
    target = None
    obl = None
    for o in run.obls:
        if o.name == name and o.path_id == worst.get("path"):
            obl = o
            break
    if obl is None:
        for o in run.obls:
            if o.name == name:
                obl = o
                break
    rep = {"property": run.pid, "obligation": name, "path": worst.get("path"), "lineno": worst.get("lineno"),
           "note": worst.get("note", ""), "solver_status": worst["status"], "backend": worst["backend"],
           "solver_output": (worst.get("model") or "")[:6000], "inputs": None, "replayed": False,
           "real_code_result": None, "confirmed_on_real_code": False}
    if obl is None:
        return rep
    rep["target"] = getattr(obl, "target", None)
    # hard wall-clock limit for the model search (z3 timeouts are not honoured inside some nonlinear procedures)
    wd = solve._NoWatchdog()
    try:
        s = z3.Solver()
        s.set("timeout", 30000)
        parts = solve.strip_goal(obl.goal)
        # find the failing conjunct
        model = None
        small = []
        for v_ in list((obl.args or {}).values()) + list((getattr(obl, "ghost", None) or {}).values()):
            _int_terms(v_, small)
        for extra, g in parts:
            hyps_all = list(obl.hyps) + list(extra)
            ground, quants, instances, neg = solve.prepare(hyps_all, g)
            # 1. full query (every quantified hypothesis present) with small inputs: a model of it is genuine
            sf = z3.Solver()
            sf.set("timeout", 20000)
            for h in hyps_all:
                sf.add(h)
            sf.add(neg)
            for t_ in small:
                sf.add(t_ >= -12, t_ <= 12)
            if sf.check() == z3.sat:
                model = sf.model()
                rep["model_from"] = "full query, inputs bounded to [-12,12]"
                break
            # 2. instantiated query (candidate model only), small first
            s2 = z3.Solver()
            s2.set("timeout", 20000)
            for h in ground + instances:
                s2.add(h)
            s2.add(neg)
            s2.push()
            for t_ in small:
                s2.add(t_ >= -40, t_ <= 40)
            if s2.check() == z3.sat:
                model = s2.model()
                rep["model_from"] = "instantiated query (candidate), inputs bounded to [-40,40]"
                break
            s2.pop()
            if s2.check() == z3.sat:
                model = s2.model()
                rep["model_from"] = "instantiated query (candidate)"
                break
        if model is not None and getattr(obl, "args", None) is not None:
            del _KEYS[:]
            _string_terms(list(obl.args.values()), _KEYS)
            rep["inputs"] = {k: concretize(model, v) for k, v in obl.args.items()}
            gh = getattr(obl, "ghost", None) or {}
            rep["ghost"] = {k: concretize(model, v) for k, v in gh.items()
                            if isinstance(v, (z3.ExprRef, Arr, int, bool, str)) and not k.startswith("__")}
    except Exception as e:
        rep["concretize_error"] = f"{type(e).__name__}: {e}" + (" [hard limit of the model search reached]" if wd.fired else "")
    finally:
        wd.stop()
    if rep["inputs"] is None and rep.get("target") in MODEL_FREE_ADAPTERS:
        # the solver gave no model within the budget, but this function's replay adapter carries its own family of
        # real inputs (it only takes the configuration from the ghost): a failure it finds is a real failing input
        gh = getattr(obl, "ghost", None) or {}
        rep["inputs"] = {}
        rep["ghost"] = {k: v for k, v in gh.items() if isinstance(v, (int, bool, str)) and not k.startswith("__")}
        rep["model_from"] = "no solver model; the adapter's own family of real inputs for this configuration"
    if rep["inputs"] is not None and rep.get("target"):
        try:
            p = subprocess.run([VENV_PY, os.path.join(ROOT, "replay", "run.py")],
                               input=json.dumps({"target": rep["target"], "inputs": rep["inputs"],
                                                 "ghost": rep.get("ghost"), "repo": engine.REPO}),
                               capture_output=True, text=True, timeout=120)
            rep["replayed"] = True
            try:
                out = json.loads(p.stdout.strip().splitlines()[-1])
            except Exception:
                out = {"error": (p.stdout + p.stderr)[-1500:]}
            rep["real_code_result"] = out
            rep["confirmed_on_real_code"] = bool(out.get("violates_contract"))
        except Exception as e:
            rep["replay_error"] = f"{type(e).__name__}: {e}"
    return rep


def run_bounded(pid, tier, seed, script):
    """bounded stand-in (never counted as proved): run-time contracts on the real code"""
    t0 = time.time()
    env = dict(os.environ)
    env["VERIF_SEED"] = str(seed)
    env["VERIF_TIER"] = tier
    env["PYTHONPATH"] = os.path.join(engine.REPO, "src") + os.pathsep + ROOT
    try:
        p = subprocess.run([VENV_PY, os.path.join(ROOT, script), "--tier", tier, "--seed", str(seed)],
                           capture_output=True, text=True, timeout=3000 if tier == "thorough" else 900, env=env,
                           cwd=ROOT)
    except subprocess.TimeoutExpired:
        return {"error": "bounded runner timed out", "wall_s": time.time() - t0}
    last = None
    for line in p.stdout.strip().splitlines()[::-1]:
        if line.startswith("{"):
            try:
                last = json.loads(line)
                break
            except Exception:
                continue
    if last is None:
        return {"error": "bounded runner produced no result: " + (p.stdout + p.stderr)[-1500:],
                "wall_s": time.time() - t0}
    last["wall_s"] = time.time() - t0
    return last


def main():
    ap = argparse.ArgumentParser()
    ap.add_argument("pid")
    ap.add_argument("--tier", default=os.environ.get("VERIF_TIER", "quick"))
    ap.add_argument("--replay")
    ap.add_argument("--write-baseline", action="store_true")
    ap.add_argument("--no-bounded", action="store_true")
    ap.add_argument("--only", help="substring filter on targets (debugging)")
    a = ap.parse_args()
    pid = a.pid
    tier = a.tier if a.tier in ("quick", "thorough") else "quick"
    seed = int(os.environ.get("VERIF_SEED", "0") or 0)
    if a.replay:
        rep = json.load(open(a.replay))
        print(json.dumps(rep, indent=1)[:4000])
        if rep.get("inputs") and rep.get("target"):
            p = subprocess.run([VENV_PY, os.path.join(ROOT, "replay", "run.py")],
                               input=json.dumps({"target": rep["target"], "inputs": rep["inputs"], "ghost": rep.get("ghost"), "repo": engine.REPO}),
                               capture_output=True, text=True)
            print(p.stdout[-3000:], p.stderr[-2000:])
        elif rep.get("bounded_case"):
            p = subprocess.run([VENV_PY, os.path.join(ROOT, rep["script"]), "--replay", a.replay],
                               capture_output=True, text=True,
                               env=dict(os.environ, PYTHONPATH=os.path.join(engine.REPO, "src") + os.pathsep + ROOT))
            print(p.stdout[-3000:], p.stderr[-2000:])
        return 0
    plan = load_plan()
    if pid not in plan:
        print(f"unknown property {pid}")
        return 3
    P = plan[pid]
    import_contracts()
    run = Run(pid, tier, seed)
    workers = int(os.environ.get("VERIF_WORKERS", "16" if tier == "thorough" else "12"))
    timeout_ms = int(os.environ.get("VERIF_TIMEOUT_MS", "120000" if tier == "thorough" else "40000"))
    targets = [t for t in P["targets"] if not a.only or a.only in t]
    missing = [t for t in targets if t not in engine.REGISTRY]
    for t in missing:
        run.errors.append(f"{t}: no contract registered")
    targets = [t for t in targets if t in engine.REGISTRY]
    run.prove(targets, workers, timeout_ms)
    summ = run.summarise()
    # ---- census: the committed baseline names every obligation that must be generated
    base_path = os.path.join(ROOT, "obligations.baseline.json")
    baseline = json.load(open(base_path)) if os.path.exists(base_path) else {}
    if a.write_baseline:
        import fcntl
        with open(base_path + ".lock", "w") as lk:      # several properties may be re-baselined in parallel
            fcntl.flock(lk, fcntl.LOCK_EX)
            baseline = json.load(open(base_path)) if os.path.exists(base_path) else {}
            baseline[pid] = sorted(n for n, i in summ.items() if i["status"] in ("proved", "covered"))
            json.dump(baseline, open(base_path, "w"), indent=0, sort_keys=True)
        print(f"baseline for {pid}: {len(baseline[pid])} obligations")
    expected = set(baseline.get(pid, []))
    if not a.only:
        # only contract-level obligations are census-checked (postconditions, exceptional outcomes, invariants,
        # lemmas, covers); obligations derived from incidental expressions of the code (an index in bounds, a
        # divisor non-zero, a callee precondition at a call site) may disappear under a harmless edit
        incidental = ("pre", "bounds", "shape", "zerodiv", "assert")
        gone = sorted(n for n in expected - set(summ) if n.split("#", 1)[1].split(":")[0] not in incidental)
        # an obligation can legitimately disappear only if its function failed to execute (already an error)
        if gone and not run.errors:
            run.errors.append(f"census mismatch: {len(gone)} baseline obligations were not generated, e.g. {gone[:3]}")
    known = json.load(open(os.path.join(ROOT, "known_findings.json")))
    known_obl = {k["obligation"]: k for k in known.get("findings", []) if k.get("property") == pid and k.get("obligation")}
    # obligations refuted by a recorded known finding are reported separately (not counted as proof obligations)
    for n in list(summ):
        if n in known_obl and summ[n]["status"] == "refuted":
            summ[n]["known"] = True
    n_obl = sum(1 for n, i in summ.items() if "#cover" not in n and not i.get("known"))
    n_dis = sum(1 for n, i in summ.items() if "#cover" not in n and i["status"] == "proved")
    os.makedirs(os.path.join(OUT, "replays", pid), exist_ok=True)
    lines = []
    run.unstable = []
    refuted_groups = {}
    for nm, info in sorted(summ.items()):
        st = info["status"]
        if st in ("proved", "covered"):
            continue
        if st == "refuted":
            if nm in known_obl:
                run.known.append((nm, known_obl[nm]))
                continue
            # the same clause refuted under several configurations of one contract is ONE violation:
            # grouped by the name without its [configuration] label, replayed below
            refuted_groups.setdefault(re.sub(r"\[[^\]]*\]", "", nm), []).append((nm, info))
        elif st == "unknown":
            # undecided by the solvers.  If the instantiated query left a candidate model, replay it on
            # the real code: a candidate that makes the REAL function break its contract is a genuine
            # counterexample (reported as a violation with that input); otherwise it stays undecided.
            confirmed = False
            tgt_mf = any(getattr(o, "target", None) in MODEL_FREE_ADAPTERS for o in run.obls if o.name == nm)
            if (tgt_mf or any("candidate-model=yes" in (w.get("detail") or "") for w in info["worst"])) and nm not in known_obl:
                rep = replay_refuted(run, nm, info, None)
                if rep.get("confirmed_on_real_code"):
                    safe = re.sub(r"[^A-Za-z0-9_.=-]+", "_", nm)[:150]
                    path = os.path.join(OUT, "replays", pid, safe + ".json")
                    rep["replay_cmd"] = f"./check {pid} --replay {path}"
                    rep["note2"] = "solver status unknown; candidate model of the instantiated query confirmed by replay"
                    json.dump(rep, open(path, "w"), indent=1, default=str)
                    run.violations.append((nm, path, ""))
                    confirmed = True
            if not confirmed:
                run.undecided.append(nm)
        elif st == "uncovered":
            run.errors.append(f"vacuity: cover obligation {nm} is unsatisfiable")
        elif st == "cover-unknown":
            pass
        elif st == "error":
            run.errors.append(f"{nm}: {info['worst'][0]['detail'] if info['worst'] else ''}")
    for gkey, members in sorted(refuted_groups.items()):
        rep = None
        for nm, info in members[:4]:
            r = replay_refuted(run, nm, info, None)
            r["obligation"] = nm
            if rep is None or r.get("confirmed_on_real_code"):
                rep = r
            if r.get("confirmed_on_real_code"):
                break
        rep["refuted_under_configurations"] = [nm for nm, _ in members]
        if not rep.get("confirmed_on_real_code"):
            # a refutation that the real code does not confirm is decided a second time, from scratch, on its own (no
            # other job competing for the cores): the formulas are deterministic, so a genuine counter-model is found
            # again, while a verdict that came from a time-dependent path through the solver stages is not.  If every
            # job of the clause is PROVED on the second attempt (unsat of an instantiated query: the sound direction),
            # the clause is not reported; the event is kept in the evidence (`unstable_refutations`).
            names = {nm for nm, _ in members}
            again = [o for o in run.obls if o.name in names]
            try:
                res2 = solve.solve_all(again, timeout_ms=timeout_ms, workers=min(8, max(1, len(again))), long=(tier == "thorough"))
            except Exception:
                res2 = []
            if res2 and all(r["status"] in ("proved", "covered") for r in res2):
                run.unstable.append(gkey)
                for nm in names:
                    if nm in summ:
                        summ[nm]["status"] = "proved"
                        summ[nm]["retried"] = True
                continue
        safe = re.sub(r"[^A-Za-z0-9_.=-]+", "_", gkey)[:150]
        path = os.path.join(OUT, "replays", pid, safe + ".json")
        rep["replay_cmd"] = f"./check {pid} --replay {path}"
        json.dump(rep, open(path, "w"), indent=1, default=str)
        tail = "" if rep.get("confirmed_on_real_code") else " no-failing-input-found"
        label = gkey if len(members) == 1 else f"{gkey} (refuted under {len(members)} configurations, e.g. {members[0][0]})"
        run.violations.append((label, path, tail))
    n_dis = sum(1 for n, i in summ.items() if "#cover" not in n and i["status"] == "proved")
    # ---- bounded stand-in
    bounded = None
    if P.get("bounded") and not a.no_bounded and not a.only:
        bounded = run_bounded(pid, tier, seed, P["bounded"])
        if bounded.get("error"):
            run.errors.append("bounded: " + bounded["error"])
        for v in bounded.get("violations", []):
            sig = v.get("signature")
            kf = [k for k in known.get("findings", []) if k.get("property") == pid and k.get("bounded_signature")
                  and k["bounded_signature"] == sig]
            if kf:
                if not any(k0 == sig for k0, _ in run.known):
                    run.known.append((sig, kf[0]))
                continue
            run.violations.append((v.get("contract", "bounded"), v.get("replay"), ""))
    # ---- evidence
    by_backend = {}
    for r in run.results:
        if r["status"] == "proved":
            by_backend[r["backend"]] = by_backend.get(r["backend"], 0) + 1
    solver_s = sum(r["seconds"] for r in run.results)
    samples = []
    for nm, info in list(sorted(summ.items()))[:: max(1, len(summ) // 6)][:8]:
        samples.append({"obligation": nm, "status": info["status"], "jobs": info["jobs"],
                        "seconds": round(info["seconds"], 3), "backends": info["backends"]})
    level = P.get("level", "proof")
    fully = (n_obl > 0 and n_dis == n_obl and not run.errors)
    ev_level = level if (level != "proof" or fully) else "other"
    assumptions = sorted(set(P.get("assumptions", [])) | (run.engine.assumptions if run.engine else set()))
    try:
        from pyvc import lib_numpy
        trusted = sorted(lib_numpy.USED)
    except Exception:
        trusted = []
    trusted = sorted(set(trusted) | set(P.get("trusted_base", [])))
    cov = {
        "obligations": n_obl, "discharged": n_dis,
        "checker_cmd": f"./check {pid} --tier {tier}",
        "trusted_base": trusted + ["z3 4.x/5.x and cvc5 (solvers)", "pyvc executor's encoding of Python (DESIGN.md s1.2)"],
        "functions_under_contract": run.functions,
        "by_backend": by_backend, "solver_seconds": round(solver_s, 2),
        "cover_obligations": sum(1 for n in summ if "#cover" in n),
        "covered": sum(1 for n, i in summ.items() if "#cover" in n and i["status"] == "covered"),
        "undecided": run.undecided[:20], "checker_errors": run.errors[:20],
        "unstable_refutations": run.unstable[:20],
        "known_findings_hit": [k[0] for k in run.known],
        "known_finding_obligations_excluded_from_counts": sorted(n for n, i in summ.items() if i.get("known")),
        "explanation": (P.get("level_text", "") + f" This run: {n_dis}/{n_obl} proof obligations discharged over "
                        f"{len(run.functions)} functions under contract"
                        + (f"; bounded stand-in (not counted as proved): {bounded.get('evaluations')} evaluations, "
                           f"{len(bounded.get('violations', []))} contract failures" if bounded else "") + "."),
        "samples": samples,
        "not_under_contract": P.get("unverified", []),
        "callees_inlined_without_own_contract": sorted(run.engine.auto_inlined) if run.engine else [],
    }
    if bounded is not None:
        cov["bounded"] = {k: bounded.get(k) for k in ("bound", "evaluations", "distinct_nontrivial", "rule",
                                                      "exhaustive", "samples", "wall_s", "contracts_evaluated")}
        cov["evaluations"] = int(bounded.get("evaluations") or 0)
        cov["distinct_nontrivial"] = int(bounded.get("distinct_nontrivial") or 0)
        cov["rule"] = "bounded stand-in (never counted as proved): " + str(bounded.get("rule"))
    ev = {"property_id": pid, "tier": tier, "seed": seed, "level": ev_level, "coverage": cov,
          "assumptions": assumptions, "wall_s": round(time.time() - run.t0, 2), "violations": len(run.violations)}
    os.makedirs(os.path.join(OUT, "evidence"), exist_ok=True)
    json.dump(ev, open(os.path.join(OUT, "evidence", f"{pid}.json"), "w"), indent=1, default=str)
    # ---- verdict
    print(f"[{pid}] tier={tier} functions={len(run.functions)} obligations={n_obl} discharged={n_dis} "
          f"undecided={len(run.undecided)} errors={len(run.errors)} violations={len(run.violations)} "
          f"solver_s={solver_s:.1f} wall_s={time.time() - run.t0:.1f}")
    for nm, k in run.known:
        print(f"KNOWN-FINDING: property={pid} {k.get('what', nm)}")
    for e in run.errors[:20]:
        print("CHECKER-ERROR:", e[:600])
    for nm in run.undecided[:20]:
        print("UNDECIDED:", nm)
    for nm, path, tail in run.violations:
        print(f"  failed obligation: {nm}")
    for nm, path, tail in run.violations[:50]:
        print(f"VIOLATION property={pid} replay={path}{tail}")
    if run.violations:
        return 1
    if run.errors:
        return 3
    if run.undecided:
        return 2
    return 0


if __name__ == "__main__":
    if os.environ.get("VERIF_DUMP_AFTER"):
        import faulthandler
        faulthandler.dump_traceback_later(int(os.environ["VERIF_DUMP_AFTER"]), repeat=True)
    sys.exit(main())
