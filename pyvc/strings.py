"""z3 string models of the str methods the small parsers use (assumed contracts)."""
from __future__ import annotations

import z3

from .values import ExcVal, PyRaise, Unsupported, is_z3, to_term, SliceV


def str_getitem(I, s, key, node):
    raise Unsupported("symbolic string subscript")


def str_to_int(I, s):
    raise Unsupported("int() of symbolic string")


def str_method(I, s, name, args, kwargs, node):
    raise Unsupported(f"str.{name} on symbolic string")
