"""String models.

 * z3 String terms for the small parsers (split on a literal separator, startswith/endswith,
   concatenation): assumed contracts of the str methods, per-path queries.
 * HumanStr / NumeralStr: a numeral-with-unit string abstracted to the value it denotes,
   (D, p): the numeral denotes D / p  (D >= 0 integer mantissa digits, p = 10^k for k
   fractional digits), with a CONCRETE unit suffix.  The regex that separates numeral and
   unit is outside the encoding: `re.split("([0-9,.]+)", numeral+unit)` is an ASSUMED
   contract (-> ["", numeral, unit]) checked by the grammar-exhaustive bounded tier of C19.
"""
from __future__ import annotations

import z3

from .values import ExcVal, LibFunc, LibNS, PyRaise, RealV, SliceV, Unsupported, is_z3, to_term


class NumeralStr:
    """[0-9]+(.[0-9]*)? denoting D / p"""
    pyvc_symbolic = True

    def __init__(self, D, p, has_point):
        self.D, self.p, self.has_point = D, p, has_point

    def pyvc_int(self, I):
        # int("12.5") raises ValueError; int("125") == 125
        if I.path.branch(self.has_point):
            raise PyRaise(ExcVal("ValueError", ("invalid literal for int() with base 10",)))
        I.path.assume(self.p == 1)
        return self.D

    def pyvc_float(self, I):
        """CPython float() is correctly rounded; D < 2^53 and p = 10^k <= 10^22 are exactly
        representable, so float(numeral) = RN(D/p) = fp.div(RNE, D, p)  (profile F-bits)"""
        from .floats import F64, RNE
        I.path.assumptions_used.add(
            "F-bits: float('d.ddd') = fp.div(RNE, D, 10^k) for mantissa digits D < 2^53, k <= 22 (correct rounding)")
        fD = z3.fpToFP(RNE, z3.ToReal(self.D), F64)
        fp_ = z3.fpToFP(RNE, z3.ToReal(self.p), F64)
        return z3.fpDiv(RNE, fD, fp_)

    def pyvc_len(self, I):
        return I.path.fresh_int("numeral.len")

    def pyvc_truthy(self, I):
        return True


class HumanStr:
    """numeral + unit, unit concrete"""
    pyvc_symbolic = True

    def __init__(self, num: NumeralStr, unit: str):
        self.num, self.unit = num, unit

    def pyvc_getattr(self, I, attr, node):
        if attr == "replace":
            def replace(I, a, b):
                if a == "," and b == "":
                    return self      # thousands separators do not change the denoted value
                raise Unsupported("HumanStr.replace")
            return LibFunc("str.replace", replace)
        raise Unsupported("HumanStr." + attr)


class RegexV:
    def __init__(self, pattern):
        self.pattern = pattern

    def pyvc_getattr(self, I, attr, node):
        if attr == "split":
            def split(I, s):
                if isinstance(s, HumanStr) and self.pattern == "([0-9,.]+)":
                    I.path.assumptions_used.add(
                        "re.split('([0-9,.]+)', numeral+unit) == ['', numeral, unit] (assumed; C19 bounded tier)")
                    return ["", s.num, s.unit]
                raise Unsupported("re.split outside the modelled case")
            return LibFunc("re.split", split)
        raise Unsupported("regex." + attr)


def decimal_ctor(I, x=0):
    """decimal.Decimal(numeral): exact.  Arithmetic on Decimals is exact for <= 28 significant
    digits (default context) -- modelled as exact rationals"""
    I.path.assumptions_used.add("decimal.Decimal arithmetic is exact for <= 28 significant digits")
    if isinstance(x, NumeralStr):
        return RealV(z3.ToReal(x.D) / z3.ToReal(x.p))
    if isinstance(x, int):
        return RealV(z3.RealVal(x))
    raise Unsupported("Decimal of " + type(x).__name__)


def install_re(engine):
    engine.lib["re"] = LibNS("re", {
        "compile": LibFunc("re.compile", lambda I, pat, *a, **k: RegexV(pat)),
        "U": 32, "IGNORECASE": 2,
    })
    engine.lib["decimal"] = LibNS("decimal", {
        "Decimal": LibFunc("decimal.Decimal", decimal_ctor),
        "InvalidOperation": __import__("pyvc.values", fromlist=["ExcClass"]).ExcClass("ArithmeticError"),
    })


# ---------------------------------------------------------------- z3 strings
def str_getitem(I, s, key, node):
    if isinstance(key, (int, z3.ArithRef)):
        n = z3.Length(s)
        idx = I.norm_index(key, n, node)
        return z3.SubString(s, idx, 1)
    if isinstance(key, SliceV) and key.step is None:
        n = z3.Length(s)
        lo, hi = I.slice_bounds(key, n)
        return z3.SubString(s, lo, z3.If(hi > lo, hi - lo, 0))
    raise Unsupported("symbolic string subscript")


def str_to_int(I, s):
    raise Unsupported("int() of symbolic string")


class SplitResult:
    """s.split(sep) for a literal separator: number of parts decided by forking on
    occurrences of the separator (up to 3 parts distinguished, then 'many')"""


def str_method(I, s, name, args, kwargs, node):
    s = to_term(s)
    if name == "startswith":
        return z3.PrefixOf(to_term(args[0]), s)
    if name == "endswith":
        return z3.SuffixOf(to_term(args[0]), s)
    if name == "split" and len(args) == 1 and isinstance(args[0], str) and args[0]:
        sep = args[0]
        sv = z3.StringVal(sep)
        L = len(sep)
        # no separator -> [s]
        i1 = z3.IndexOf(s, sv, 0)
        if I.path.branch(i1 < 0):
            return [s]
        a = z3.SubString(s, 0, i1)
        rest = z3.SubString(s, i1 + L, z3.Length(s) - i1 - L)
        i2 = z3.IndexOf(rest, sv, 0)
        if I.path.branch(i2 < 0):
            return [a, rest]
        b = z3.SubString(rest, 0, i2)
        rest2 = z3.SubString(rest, i2 + L, z3.Length(rest) - i2 - L)
        # three or more parts: the exact tail is not needed by the verified code (it raises)
        return [a, b, rest2, ManyMore()]
    if name == "strip":
        raise Unsupported("str.strip on symbolic string")
    raise Unsupported(f"str.{name} on symbolic string")


class ManyMore:
    """marker: the split has at least this many parts (possibly more)"""
