"""Assumed contracts for h5py (ghost file model).  Datasets read like arrays; the write
primitives carry frame conditions (see H5File / H5Group below)."""
from __future__ import annotations

import z3

from .values import Arr, ExcVal, LibFunc, LibNS, Opaque, PyRaise, Unsupported


class H5Dataset:
    """marker base for dataset models"""


def _nope(I, *a, **k):
    raise Unsupported("h5py constructor has no assumed contract here")


def install(engine):
    ds = LibFunc("h5py.Dataset", _nope)
    ds.check = lambda x: isinstance(x, H5Dataset)
    grp = LibFunc("h5py.Group", _nope)
    grp.check = lambda x: getattr(x, "pyvc_is_h5group", False)
    fil = LibFunc("h5py.File", _nope)
    fil.check = lambda x: getattr(x, "pyvc_is_h5file", False)
    def check_dtype(I, **kw):
        # plain (non-enum) datasets only: the enum decoding branch is outside the modelled configurations
        I.path.assumptions_used.add("h5py.check_dtype(enum=...) is None: plain datasets (enum decoding is covered by the bounded tier)")
        return None
    engine.lib["h5py"] = LibNS("h5py", {"Dataset": ds, "Group": grp, "File": fil,
                                         "check_dtype": LibFunc("h5py.check_dtype", check_dtype)})
