"""Assumed contracts for the pandas operations the verified functions use.

Abstraction: a DataFrame is an ordered dict  column -> 1-D array  (all of one
symbolic length) plus an index array; a Series is one array plus an index.
A frame whose ``chrom`` column is sorted into runs carries the run offsets
(``runs`` = (nruns, off)) as part of its shape; groupby("chrom") then yields
one sub-frame per run, in order.  Every method below is an ASSUMPTION about
pandas (trusted base) and has an audit in libspec_audit.py.
"""
from __future__ import annotations

import ast

import z3

from . import spec
from .values import (Arr, ExcVal, GenV, LibFunc, LibNS, Opaque, PyRaise, SliceV, SymList, Unsupported,
                     is_z3, to_term)
from . import lib_numpy as lnp

USED = set()


def _use(n):
    USED.add("pandas." + n)
    lnp.USED.add("pandas." + n)


def M(name, fn):
    return LibFunc(name, fn)


class SeriesV:
    def __init__(self, values, index=None, name=None):
        self.values = values      # Arr | SymList
        self.index = index        # None (RangeIndex 0..n-1) | Arr | SymList
        self.name = name

    @property
    def n(self):
        return self.values.n

    def pyvc_isinstance(self, tag):
        return "Series" in tag

    def pyvc_getattr(self, I, attr, node):
        v = self.values
        if attr == "values":
            return v
        if attr == "iloc":
            return _ILoc(self)
        if attr == "index":
            return self.index if self.index is not None else lnp.np_arange(I, v.n)
        if attr == "unique":
            return M("Series.unique", lambda I: series_unique(I, lnp.as_arr(I, v)))
        if attr == "astype":
            return M("Series.astype", lambda I, t=None, **k: SeriesV(I.call(I.getattr(lnp.as_arr(I, v), "astype"), [t], {}), self.index, self.name))
        if attr in ("min", "max", "sum", "any", "all", "searchsorted", "tolist", "copy", "dtype", "shape", "size"):
            if attr in ("any", "all", "sum", "min", "max"):
                return M("Series." + attr, lambda I, **kw: I.call(I.getattr(lnp.as_arr(I, v), attr, node), [], {}))
            return I.getattr(lnp.as_arr(I, v), attr, node)
        if attr == "to_numpy":
            def to_numpy(I, copy=False, **k):
                a = lnp.as_arr(I, v)
                # copy=True: a new array with the same contents (stores into it do not reach the frame)
                return Arr(a.n, a.at, a.kind, a.dtype) if copy else a
            return M("Series.to_numpy", to_numpy)
        if attr == "cat":
            return _Cat(self)
        if attr == "keys":
            return M("Series.keys", lambda I: self.index)
        raise Unsupported(f"Series.{attr} has no assumed contract")

    def pyvc_getitem(self, I, key, node):
        if isinstance(key, (Arr,)) and key.kind == "bool":
            return SeriesV(lnp.arr_getitem(I, lnp.as_arr(I, self.values), key, node), None, self.name)
        raise Unsupported("Series[...] label indexing (use .iloc/.values)")

    def pyvc_binop(self, I, op, a, b):
        av = a.values if isinstance(a, SeriesV) else a
        bv = b.values if isinstance(b, SeriesV) else b
        return SeriesV(I.binop(op, lnp.as_arr(I, av) if isinstance(a, SeriesV) else av,
                               lnp.as_arr(I, bv) if isinstance(b, SeriesV) else bv), self.index, None)

    pyvc_rbinop = pyvc_binop
    pyvc_symbolic = True

    def pyvc_compare(self, I, op, a, b):
        av = a.values if isinstance(a, SeriesV) else a
        bv = b.values if isinstance(b, SeriesV) else b
        return SeriesV(I.compare(op, av, bv), self.index, None)

    pyvc_rcompare = pyvc_compare

    def pyvc_len(self, I):
        return self.values.n

    def pyvc_invert(self, I):
        a = lnp.as_arr(I, self.values)
        fa = a.at
        return SeriesV(Arr(a.n, lambda k: z3.Not(fa(k)), "bool"), self.index, None)

    def pyvc_asarray(self, I):
        return lnp.as_arr(I, self.values)

    def pyvc_tolist(self, I):
        v = self.values
        return v if isinstance(v, SymList) else SymList(v.n, v.at)

    def pyvc_symiter(self, I):
        return self.values.n, self.values.at


class _Cat:
    def __init__(self, s):
        self.s = s

    def pyvc_getattr(self, I, attr, node):
        if attr == "codes":
            _use("Categorical.codes")
            return lnp.as_arr(I, self.s.values)   # chrom columns are modelled by their integer codes
        raise Unsupported("Series.cat." + attr)


class _Loc:
    """DataFrame.loc[mask, column]: read = the column filtered by the boolean mask; write = in-place
    masked store into the frame's column"""

    def __init__(self, frame):
        self.frame = frame

    def _key(self, key):
        if not (isinstance(key, tuple) and len(key) == 2 and isinstance(key[1], str)):
            raise Unsupported(".loc with a key other than (boolean mask, column name)")
        m, col = key
        m = m.values if isinstance(m, SeriesV) else m
        if not (isinstance(m, Arr) and m.kind == "bool"):
            raise Unsupported(".loc row key must be a boolean mask")
        if col not in self.frame.cols:
            raise PyRaise(ExcVal("KeyError", (col,)))
        return m, col

    def pyvc_getitem(self, I, key, node):
        if isinstance(key, SliceV) and key.step is None:
            return self._label_slice(I, key)
        _use("DataFrame.loc[mask, col]")
        m, col = self._key(key)
        return SeriesV(lnp.arr_getitem(I, lnp.as_arr(I, self.frame.cols[col]), m, node), None, col)

    def _label_slice(self, I, key):
        """df.loc[beg:end] on a frame whose index is the consecutive integers first, first+1, ... (end-INCLUSIVE label
        slice of a monotonic integer index: the rows whose label lies in [beg, end]; absent labels are allowed)"""
        _use("DataFrame.loc[beg:end] (consecutive integer index)")
        fr = self.frame
        first = index_first(fr.index)
        if first is None:
            raise Unsupported(".loc[beg:end] on an index that is not known to be consecutive integers")
        n = fr.n
        clamp = lambda x: z3.If(x < 0, z3.IntVal(0), z3.If(x > n, n, x))   # noqa: E731
        lo = z3.IntVal(0) if key.start is None else clamp(to_term(key.start) - first)
        hi = n if key.stop is None else clamp(to_term(key.stop) - first + 1)
        hi = z3.If(hi < lo, lo, hi)
        return frame_rows(I, fr, lo, hi)

    def pyvc_setitem(self, I, key, val):
        _use("DataFrame.loc[mask, col] = values")
        m, col = self._key(key)
        v = val.values if isinstance(val, SeriesV) else val
        I.arr_store(lnp.as_arr(I, self.frame.cols[col]), m, v, None)


class _ILoc:
    def __init__(self, obj):
        self.obj = obj

    def pyvc_getitem(self, I, key, node):
        o = self.obj
        if isinstance(o, SeriesV):
            r = lnp.arr_getitem(I, lnp.as_arr(I, o.values), key, node)
            if isinstance(r, Arr):
                return SeriesV(r, None, o.name)
            return r
        if isinstance(o, DataFrameV):
            if isinstance(key, SliceV):
                if o.index is not None and key.step is None:
                    lo, hi = I.slice_bounds(key, o.n)
                    return frame_rows(I, o, lo, z3.If(hi < lo, lo, hi))
                cols = {c: lnp.arr_getitem(I, lnp.as_arr(I, a), key, node) for c, a in o.cols.items()}
                return DataFrameV(cols, None)
            if isinstance(key, SeriesV):
                key = key.values
            if isinstance(key, Arr) and key.kind == "int":
                # positional take: position p in [-n, n) (negative positions count from the end), IndexError otherwise
                _use("DataFrame.iloc[integer array]")
                n = o.n
                ordn = I.path.ordinal("iloc-take")
                kk = z3.Int(I.path.fresh_name("ilk"))
                I.path.oblige("bounds", f"iloc-positions#{ordn}",
                              z3.ForAll([kk], z3.Implies(z3.And(kk >= 0, kk < key.n), z3.And(key.at(kk) >= -n, key.at(kk) < n))),
                              getattr(node, "lineno", None))
                pos = lambda k, key=key, n=n: z3.If(key.at(k) < 0, key.at(k) + n, key.at(k))   # noqa: E731
                cols = {}
                for c, a in o.cols.items():
                    a = lnp.as_arr(I, a)
                    cols[c] = Arr(key.n, (lambda k, a=a: a.at(pos(k))), a.kind, a.dtype)
                idx = None
                if o.index is not None:
                    ia = o.index
                    idx = Arr(key.n, (lambda k, ia=ia: ia.at(pos(k))), "int")
                else:
                    idx = Arr(key.n, pos, "int")
                return DataFrameV(cols, idx)
        raise Unsupported("iloc on " + type(o).__name__)


def index_first(index):
    """the label of row 0 when the index is known to be consecutive integers (None = RangeIndex from 0)"""
    if index is None:
        return z3.IntVal(0)
    return getattr(index, "first", None)


def offset_index(n, first):
    """the index first, first+1, ..., first+n-1"""
    first = to_term(first)
    ix = Arr(n, lambda k, f=first: f + k, "int")
    ix.first = first
    return ix


def frame_rows(I, fr, lo, hi):
    """rows [lo, hi) of a frame (0 <= lo <= hi <= n), index labels kept"""
    cols = {}
    for c, a in fr.cols.items():
        a = lnp.as_arr(I, a)
        cols[c] = Arr(hi - lo, (lambda k, a=a, lo=lo: a.at(lo + k)), a.kind, a.dtype)
    first = index_first(fr.index)
    if first is not None:
        idx = offset_index(hi - lo, first + lo)
    else:
        ia = fr.index
        idx = Arr(hi - lo, (lambda k, ia=ia, lo=lo: ia.at(lo + k)), "int")
    return DataFrameV(cols, idx)


def series_unique(I, a: Arr):
    """pandas Series.unique(): the distinct values (order of first appearance; no order is assumed here)"""
    _use("Series.unique")
    p = I.path
    nm = p.fresh_name("suniq")
    u = p.fresh_arr(nm, a.kind)
    pos = z3.Function(nm + ".pos", z3.IntSort(), z3.IntSort())
    rank = z3.Function(nm + ".rank", z3.IntSort(), z3.IntSort())
    p.assume(z3.And(u.n <= a.n, z3.Implies(a.n > 0, u.n > 0)))
    p.assume(spec.forall(0, u.n, lambda k: z3.And(pos(k) >= 0, pos(k) < a.n, a.at(pos(k)) == u.at(k))))
    p.assume(spec.forall(0, a.n, lambda j: z3.And(rank(j) >= 0, rank(j) < u.n, u.at(rank(j)) == a.at(j))))
    p.assume(spec.forall2(0, u.n, 0, u.n, lambda k1, k2: z3.Implies(k1 != k2, u.at(k1) != u.at(k2))))
    return u


class DataFrameV:
    def __init__(self, cols, index=None, runs=None):
        self.cols = dict(cols)
        self.index = index
        self.runs = runs   # (nruns, off Arr) when the "chrom" column is sorted into runs

    pyvc_symbolic = True

    def pyvc_isinstance(self, tag):
        return "DataFrame" in tag

    @property
    def n(self):
        for a in self.cols.values():
            return a.n
        return z3.IntVal(0)

    def pyvc_len(self, I):
        return self.n

    def pyvc_getitem(self, I, key, node):
        if isinstance(key, SeriesV):
            key = key.values
        if isinstance(key, Arr) and key.kind == "bool":
            # boolean-mask row selection: the same filter applied to every column
            cols = {c: lnp.arr_getitem(I, lnp.as_arr(I, a), key, node) for c, a in self.cols.items()}
            out = DataFrameV(cols, None, None)
            out._filter = lnp.mask_filter(I, key)       # (m, src, rank) of the row selection (ghost)
            return out
        if isinstance(key, str):
            if key not in self.cols:
                raise PyRaise(ExcVal("KeyError", (key,)))
            return SeriesV(self.cols[key], self.index, key)
        if isinstance(key, list) and all(isinstance(k, str) for k in key):
            for k in key:
                if k not in self.cols:
                    raise PyRaise(ExcVal("KeyError", (k,)))
            return DataFrameV({k: self.cols[k] for k in key}, self.index, self.runs)
        raise Unsupported("DataFrame[...] with " + type(key).__name__)

    def pyvc_setitem(self, I, key, val):
        if isinstance(key, str):
            self.cols[key] = val.values if isinstance(val, SeriesV) else val
            return
        raise Unsupported("DataFrame[...] = with " + type(key).__name__)

    def pyvc_contains(self, I, item):
        return item in self.cols

    def pyvc_setattr(self, I, attr, val):
        if attr == "index":
            _use("DataFrame.index = labels")
            if isinstance(val, SeriesV):
                val = val.values
            if val is not None and hasattr(val, "n"):
                I.path.oblige("shape", f"index-length#{I.path.ordinal('dfindex')}", val.n == self.n)
            self.index = val
            return
        raise Unsupported(f"DataFrame.{attr} = ...")

    def pyvc_getattr(self, I, attr, node):
        if attr in self.cols and attr not in ("index", "columns", "values"):
            return SeriesV(self.cols[attr], self.index, attr)
        if attr == "iloc":
            return _ILoc(self)
        if attr == "loc":
            return _Loc(self)
        if attr == "name" and getattr(self, "name", None) is not None:
            return self.name          # the group key of a sub-frame handed to groupby(...).apply(f)
        if attr == "columns":
            return list(self.cols.keys())
        if attr == "groupby":
            return M("DataFrame.groupby", lambda I, by, **kw: GroupByV(self, by, kw))
        if attr == "copy":
            def copy(I, **kw):
                out = DataFrameV(dict(self.cols), self.index, self.runs)
                for g in ("_filter", "_perm"):        # ghost provenance of the rows travels with a copy
                    if getattr(self, g, None) is not None:
                        setattr(out, g, getattr(self, g))
                return out
            return M("DataFrame.copy", copy)
        if attr == "drop_duplicates":
            return M("DataFrame.drop_duplicates", lambda I, subset=None, keep="first", **kw: self.drop_duplicates(I, subset, keep))
        if attr == "reset_index":
            return M("DataFrame.reset_index", lambda I, drop=False, **kw: DataFrameV(dict(self.cols), None, self.runs) if drop else _unsup("reset_index(drop=False)"))
        if attr == "rename":
            def rename(I, columns=None, **kw):
                if columns is None:
                    raise Unsupported("DataFrame.rename without columns=")
                if not isinstance(columns, dict):      # a function of the column name
                    new = {}
                    for c, a in self.cols.items():
                        c2 = I.call(columns, [c], {})
                        if not isinstance(c2, str) or c2 in new:
                            raise Unsupported("DataFrame.rename(columns=function) with a non-concrete or clashing name")
                        new[c2] = a
                    return DataFrameV(new, self.index, self.runs)
                return DataFrameV({columns.get(c, c): a for c, a in self.cols.items()}, self.index, self.runs)
            return M("DataFrame.rename", rename)
        if attr == "index":
            return self.index if self.index is not None else lnp.np_arange(I, self.n)
        if attr == "drop":
            def drop(I, labels=None, axis=0, columns=None, **kw):
                _use("DataFrame.drop(columns)")
                if columns is None and axis in (1, "columns"):
                    columns = labels
                if columns is None:
                    raise Unsupported("DataFrame.drop of rows")
                columns = [columns] if isinstance(columns, str) else list(columns)
                for c in columns:
                    if c not in self.cols:
                        raise PyRaise(ExcVal("KeyError", (c,)))
                return DataFrameV({c: a for c, a in self.cols.items() if c not in columns}, self.index, None)
            return M("DataFrame.drop", drop)
        if attr == "head":
            return M("DataFrame.head", lambda I, n=5: self)
        if attr == "to_csv":
            return M("DataFrame.to_csv", lambda I, *a, **k: "<csv text>")
        if attr == "duplicated":
            return M("DataFrame.duplicated", lambda I, subset=None, keep="first", **kw: self.duplicated(I, subset, keep))
        if attr == "sort_values":
            return M("DataFrame.sort_values", lambda I, by=None, **kw: self.sort_values(I, by, kw))
        if attr == "items":
            return M("DataFrame.items", lambda I: [(c, SeriesV(a, self.index, c)) for c, a in self.cols.items()])
        if attr == "keys":
            return M("DataFrame.keys", lambda I: list(self.cols.keys()))
        raise Unsupported(f"DataFrame.{attr} has no assumed contract")

    def _same_key(self, I, subset, k1, k2):
        cols = list(self.cols.keys()) if subset is None else list(subset)
        for c in cols:
            if c not in self.cols:
                raise PyRaise(ExcVal("KeyError", (c,)))
        return z3.And(*[lnp.as_arr(I, self.cols[c]).at(k1) == lnp.as_arr(I, self.cols[c]).at(k2) for c in cols])

    def duplicated(self, I, subset, keep):
        """DataFrame.duplicated(subset, keep): row k is marked iff another row with the same key exists
        before it (keep='first'), after it (keep='last'), anywhere (keep=False)"""
        _use("DataFrame.duplicated")
        p = I.path
        n = self.n
        d = p.fresh_arr("is_dup", "bool", n=n)
        w = z3.Function(p.fresh_name("dup.w"), z3.IntSort(), z3.IntSort())
        same = lambda a, b: self._same_key(I, subset, a, b)
        if keep == "first":
            other_ok = lambda k, o: o < k
        elif keep == "last":
            other_ok = lambda k, o: o > k
        elif keep is False:
            other_ok = lambda k, o: o != k
        else:
            raise Unsupported("duplicated(keep=...)")
        p.assume(spec.forall(0, n, lambda k: z3.Implies(d.at(k), z3.And(w(k) >= 0, w(k) < n, other_ok(k, w(k)), same(k, w(k))))))
        p.assume(spec.forall2(0, n, 0, n, lambda k, o: z3.Implies(z3.And(other_ok(k, o), same(k, o)), d.at(k))))
        return SeriesV(d, None, None)

    def sort_values(self, I, by, kw):
        """sort_values(by): a permutation of the rows, lexicographically non-decreasing in `by`"""
        _use("DataFrame.sort_values")
        if kw:
            raise Unsupported("sort_values options")
        by = [by] if isinstance(by, str) else list(by)
        p = I.path
        n = self.n
        perm = z3.Function(p.fresh_name("sort.perm"), z3.IntSort(), z3.IntSort())
        inv = z3.Function(p.fresh_name("sort.inv"), z3.IntSort(), z3.IntSort())
        p.assume(spec.forall(0, n, lambda k: z3.And(perm(k) >= 0, perm(k) < n, inv(perm(k)) == k)))
        p.assume(spec.forall(0, n, lambda k: z3.And(inv(k) >= 0, inv(k) < n, perm(inv(k)) == k)))
        cols = {}
        for c, a in self.cols.items():
            fa = lnp.as_arr(I, a).at
            cols[c] = Arr(n, lambda k, fa=fa: fa(perm(k)), lnp.as_arr(I, a).kind)
        keyat = [cols[c].at for c in by]

        def leq(k1, k2):
            # lexicographic <=
            r = z3.BoolVal(True)
            for f in reversed(keyat):
                r = z3.Or(f(k1) < f(k2), z3.And(f(k1) == f(k2), r))
            return r
        p.assume(spec.forall2(0, n, 0, n, lambda k1, k2: z3.Implies(k1 <= k2, leq(k1, k2))))
        out = DataFrameV(cols, None, None)
        out._perm = perm
        return out

    def drop_duplicates(self, I, subset, keep):
        """drop_duplicates(["chrom"], keep="last") on a frame whose chrom column is sorted into
        runs: exactly the last row of every run, in order"""
        _use("DataFrame.drop_duplicates(keep='last') on run-sorted key")
        if subset != ["chrom"] or keep != "last" or self.runs is None:
            raise Unsupported("drop_duplicates: only (['chrom'], keep='last') on a run-sorted frame is modelled")
        nr, off = self.runs
        cols = {}
        for c, a in self.cols.items():
            a = lnp.as_arr(I, a)
            fa = a.at
            cols[c] = Arr(nr, lambda k, fa=fa: fa(off.at(k + 1) - 1), a.kind, a.dtype)
        return DataFrameV(cols, None, None)


def _unsup(msg):
    raise Unsupported(msg)


class GroupByV:
    """groupby on the run-sorted key column: one group per run, in order"""

    def __init__(self, frame, by, kw):
        if by != "chrom" and by != ["chrom"]:
            raise Unsupported("groupby on " + repr(by))
        if frame.runs is None:
            raise Unsupported("groupby on a frame that is not known to be sorted into runs")
        self.frame = frame
        self.kw = kw
        _use("DataFrame.groupby(sorted-run key): one group per run, in key order")

    def pyvc_symiter(self, I):
        nr, off = self.frame.runs
        fr = self.frame

        def at(c):
            lo, hi = off.at(c), off.at(c + 1)
            cols = {}
            for name, a in fr.cols.items():
                a = lnp.as_arr(I, a)
                cols[name] = Arr(hi - lo, lambda k, a=a, lo=lo: a.at(lo + k), a.kind, a.dtype)
            return (c, DataFrameV(cols, None, None))
        return nr, at

    def pyvc_items(self, I):
        return None

    def pyvc_getattr(self, I, attr, node):
        if attr == "size":
            def size(I):
                nr, off = self.frame.runs
                return SeriesV(Arr(nr, lambda c: off.at(c + 1) - off.at(c), "int"), None, None)
            return M("GroupBy.size", size)
        if attr == "get_group":
            def get_group(I, key):
                nr, off = self.frame.runs
                raise Unsupported("get_group needs the name->code map")
            return M("GroupBy.get_group", get_group)
        raise Unsupported("GroupBy." + attr)


def pd_DataFrame(I, data=None, columns=None, index=None, **kw):
    _use("DataFrame(dict of columns)")
    if not isinstance(data, dict):
        raise Unsupported("pd.DataFrame from " + type(data).__name__)
    cols = {}
    order = columns if columns is not None else list(data.keys())
    for c in order:
        if c not in data:
            raise Unsupported("DataFrame column without data")
        v = data[c]
        cols[c] = v.values if isinstance(v, SeriesV) else v
    # all columns must have one length
    ns = [getattr(a, "n", None) for a in cols.values()]
    ns = [n for n in ns if n is not None]
    for n in ns[1:]:
        I.path.oblige("shape", f"DataFrame-columns#{I.path.ordinal('dfshape')}", ns[0] == n)
    if index is not None and ns and hasattr(index, "n"):
        I.path.oblige("shape", f"DataFrame-index#{I.path.ordinal('dfshape')}", ns[0] == index.n)
    return DataFrameV(cols, index)


def pd_Series(I, data=None, index=None, **kw):
    _use("Series(index=, data=)")
    if data is not None and index is not None and hasattr(data, "n") and hasattr(index, "n"):
        I.path.oblige("shape", f"Series-index#{I.path.ordinal('sershape')}", data.n == index.n)
    return SeriesV(data, index, kw.get("name"))


def pd_concat(I, objs, axis=0, **kw):
    """pd.concat(frames, axis=1) of frames that all carry the default RangeIndex: columns side by side, rows aligned by
    position; the lengths must agree (with different lengths pandas pads with NaN rows: an obligation here)"""
    if axis not in (1, "columns"):
        raise Unsupported("pd.concat along rows has no assumed contract here")
    _use("pd.concat(axis=1) of RangeIndex frames")
    objs = list(objs)
    cols, n0 = {}, None
    for o in objs:
        if isinstance(o, SeriesV):
            o = DataFrameV({o.name: o.values}, o.index)
        if not isinstance(o, DataFrameV):
            raise Unsupported("pd.concat of " + type(o).__name__)
        if o.index is not None:
            raise Unsupported("pd.concat(axis=1) of frames with a non-default index (label alignment is not modelled)")
        if o.cols:
            if n0 is None:
                n0 = o.n
            else:
                I.path.oblige("shape", f"concat-lengths#{I.path.ordinal('concat1')}", o.n == n0)
        for c, a in o.cols.items():
            if c in cols:
                raise Unsupported("pd.concat(axis=1) producing a duplicate column name")
            cols[c] = a
    return DataFrameV(cols, None)


def install(engine):
    pd = LibNS("pandas", {
        "concat": LibFunc("pd.concat", pd_concat),
        "DataFrame": LibFunc("pd.DataFrame", pd_DataFrame),
        "Series": LibFunc("pd.Series", pd_Series),
        "CategoricalDtype": Opaque("pd.CategoricalDtype"),
    })
    pd._members["DataFrame"].check = lambda x: isinstance(x, DataFrameV)
    pd._members["Series"].check = lambda x: isinstance(x, SeriesV)
    engine.lib["pandas"] = pd
    engine.lib["pandas.api.types"] = LibNS("pandas.api.types", {})
