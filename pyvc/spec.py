"""Dual-mode specification vocabulary.

Contracts are written once over this vocabulary.  Under the prover
(python3-vt, z3 available, arguments are z3 terms / symbolic arrays) the
functions build z3 formulas; under the replayer / bounded runner
(/venv/bin/python, no z3, arguments are ints / numpy arrays / lists) the same
functions evaluate to Python booleans.  That is what lets a solver
counterexample be re-checked on the real code with the *same* contract text.
"""
from __future__ import annotations

try:  # prover side
    import z3  # type: ignore
except Exception:  # replayer side
    z3 = None


def is_sym(x):
    return z3 is not None and isinstance(x, z3.ExprRef)


def _anysym(*xs):
    if z3 is None:
        return False
    for x in xs:
        if isinstance(x, z3.ExprRef):
            return True
        if isinstance(x, (list, tuple)) and _anysym(*x):
            return True
    return False


def _b(x):
    """coerce a Python bool to a z3 Bool when mixing"""
    if isinstance(x, bool):
        return z3.BoolVal(x)
    return x


def And(*xs):
    if len(xs) == 1 and isinstance(xs[0], (list, tuple)):
        xs = tuple(xs[0])
    if _anysym(*xs):
        ys = [_b(x) for x in xs if x is not True]
        if any(y is False for y in xs):
            return z3.BoolVal(False)
        if not ys:
            return z3.BoolVal(True)
        return z3.And(*ys) if len(ys) > 1 else ys[0]
    return all(bool(x) for x in xs)


def Or(*xs):
    if len(xs) == 1 and isinstance(xs[0], (list, tuple)):
        xs = tuple(xs[0])
    if _anysym(*xs):
        if any(x is True for x in xs):
            return z3.BoolVal(True)
        ys = [_b(x) for x in xs if x is not False]
        if not ys:
            return z3.BoolVal(False)
        return z3.Or(*ys) if len(ys) > 1 else ys[0]
    return any(bool(x) for x in xs)


def Not(x):
    if is_sym(x):
        return z3.Not(x)
    return not bool(x)


def Implies(a, b):
    if _anysym(a, b):
        if a is True:
            return _b(b)
        if a is False:
            return z3.BoolVal(True)
        return z3.Implies(_b(a), _b(b))
    return (not bool(a)) or bool(b)


def Iff(a, b):
    if _anysym(a, b):
        return _b(a) == _b(b)
    return bool(a) == bool(b)


def If(c, a, b):
    if _anysym(c, a, b):
        if isinstance(c, bool):
            return a if c else b
        if isinstance(a, bool):
            a = z3.BoolVal(a)
        if isinstance(b, bool):
            b = z3.BoolVal(b)
        return z3.If(c, a, b)
    return a if c else b


def div(a, b):
    """floor division for b > 0 (z3 int div is Euclidean: identical for b>0)"""
    if _anysym(a, b):
        return a / b if is_sym(a) else z3.IntVal(a) / b
    return a // b


def mod(a, b):
    if _anysym(a, b):
        return a % b if is_sym(a) else z3.IntVal(a) % b
    return a % b


def cdiv(a, b):
    """ceil(a / b) for b > 0"""
    return -div(-a, b)


def Min(a, b):
    return If(a <= b, a, b)


def Max(a, b):
    return If(a >= b, a, b)


def Abs(a):
    return If(a >= 0, a, -a)


_qcount = [0]


def forall(lo, hi, fn, name="k"):
    """for all integers k with lo <= k < hi: fn(k)"""
    if _anysym(lo, hi) or _SYMBOLIC_MODE[0]:
        _qcount[0] += 1
        k = z3.Int(f"{name}!q{_qcount[0]}")
        body = fn(k)
        if isinstance(body, (list, tuple)):
            body = And(*body)
        if body is True:
            return z3.BoolVal(True)
        return z3.ForAll([k], z3.Implies(z3.And(lo <= k, k < hi), _b(body)))
    return all(bool(_all(fn(k))) for k in range(int(lo), int(hi)))


def forall2(lo1, hi1, lo2, hi2, fn, name="k"):
    if _anysym(lo1, hi1, lo2, hi2) or _SYMBOLIC_MODE[0]:
        _qcount[0] += 1
        k = z3.Int(f"{name}a!q{_qcount[0]}")
        m = z3.Int(f"{name}b!q{_qcount[0]}")
        body = fn(k, m)
        if isinstance(body, (list, tuple)):
            body = And(*body)
        if body is True:
            return z3.BoolVal(True)
        return z3.ForAll([k, m], z3.Implies(
            z3.And(lo1 <= k, k < hi1, lo2 <= m, m < hi2), _b(body)))
    return all(bool(_all(fn(k, m))) for k in range(int(lo1), int(hi1))
               for m in range(int(lo2), int(hi2)))


def exists(lo, hi, fn, name="e"):
    if _anysym(lo, hi) or _SYMBOLIC_MODE[0]:
        _qcount[0] += 1
        k = z3.Int(f"{name}!q{_qcount[0]}")
        body = fn(k)
        if isinstance(body, (list, tuple)):
            body = And(*body)
        return z3.Exists([k], z3.And(lo <= k, k < hi, _b(body)))
    return any(bool(_all(fn(k))) for k in range(int(lo), int(hi)))


def _all(x):
    if isinstance(x, (list, tuple)):
        return all(bool(_all(y)) for y in x)
    return x


# set by the prover so that forall() over concrete bounds but symbolic arrays
# still produces a formula
_SYMBOLIC_MODE = [False]


def symbolic_mode(on=True):
    _SYMBOLIC_MODE[0] = bool(on)


def count_true(*conds):
    """number of true conditions (as an integer term)"""
    tot = 0
    for c in conds:
        tot = tot + If(c, 1, 0)
    return tot
