"""names contracts import"""
from .spec import (And, Or, Not, Implies, Iff, If, div, mod, cdiv, Min, Max, Abs, forall, forall2, exists,
                   count_true, is_sym, z3)
try:
    from .engine import Contract, LoopSpec, contract, REGISTRY
    from .values import Arr, Obj, SymList, SegList, ConcatList, SymMap, SliceV, GenV, Composed, Quot, RealV, Opaque
    from .engine import Engine as _Engine

    def inline_ok(*targets):
        """small helpers executed inline at call sites (their statements are verified as part of each caller)"""
        _Engine.inline_ok.update(targets)
    PROVER = True
except ImportError:  # replayer side: no z3
    PROVER = False
    REGISTRY = {}

    class Contract:  # minimal stand-ins so contract modules import under /venv python
        target = None
        props = ()
        inline = False
        loops = {}
        raises = {}
        raises_exact = True

        def requires(self, **a):
            return []

        def ensures(self, result, **a):
            return {}

    class LoopSpec:
        def __init__(self, *a, **k):
            pass

    def contract(cls):
        inst = cls()
        REGISTRY[inst.target] = inst
        return cls

    def inline_ok(*targets):
        pass

    class SliceV:
        def __init__(self, start, stop, step=None):
            self.start, self.stop, self.step = start, stop, step

    class _Never:
        pass
    Arr = Obj = SymList = SegList = ConcatList = SymMap = GenV = Composed = Quot = RealV = Opaque = _Never
