"""Assumed contracts for small third-party helpers."""
from __future__ import annotations

from .values import Composed, LibFunc, LibNS, Partial


def install(engine):
    engine.lib["cytoolz"] = LibNS("cytoolz", {
        "compose": LibFunc("cytoolz.compose", lambda I, *fs: Composed(fs)),
    })
    engine.lib["toolz"] = engine.lib["cytoolz"]
    engine.lib["functools"] = LibNS("functools", {
        "partial": LibFunc("functools.partial", lambda I, f, *a, **k: Partial(f, a, k)),
    })
