"""Assumed contracts for small third-party helpers."""
from __future__ import annotations

from .values import Composed, LibFunc, LibNS, Partial, Unsupported


def bisect_model(side):
    def bisect(I, a, x, lo=0, hi=None, **kw):
        """bisect.bisect_left/right(a, x, lo): insertion point in the sorted a[lo:], assumed contract
        (requires a non-decreasing on [lo, n): obliged at the call)"""
        import z3
        from . import spec
        from .lib_numpy import as_arr, elem_term
        from .floats import as_real
        from .values import RealV, Quot
        a = as_arr(I, a)
        if hi is not None:
            raise Unsupported("bisect with hi=")
        p = I.path
        lo_t = lo if isinstance(lo, z3.ExprRef) else z3.IntVal(int(lo))
        xv = as_real(x) if (a.kind == "real" or isinstance(x, (RealV, Quot, float))) else elem_term(x, a.kind)
        at = (lambda k: as_real(a.at(k))) if (a.kind != "real" and z3.is_real(xv)) else a.at
        ordn = p.ordinal("bisect")
        p.oblige("pre", f"bisect#{ordn}.sorted-from-lo", spec.forall2(
            lo_t, a.n, lo_t, a.n, lambda k1, k2: z3.Implies(k1 <= k2, at(k1) <= at(k2))))
        p.oblige("pre", f"bisect#{ordn}.lo-in-range", z3.And(lo_t >= 0, lo_t <= a.n))
        pos = p.fresh_int("bisect")
        p.assume(z3.And(pos >= lo_t, pos <= a.n))
        if side == "right":
            p.assume(spec.forall(lo_t, pos, lambda k: at(k) <= xv))
            p.assume(spec.forall(pos, a.n, lambda k: at(k) > xv))
        else:
            p.assume(spec.forall(lo_t, pos, lambda k: at(k) < xv))
            p.assume(spec.forall(pos, a.n, lambda k: at(k) >= xv))
        from . import lib_numpy
        lib_numpy.USED.add("bisect.bisect_" + side)
        return pos
    return bisect


def install(engine):
    from .values import Unsupported  # noqa: F401
    engine.lib["bisect"] = LibNS("bisect", {
        "bisect_right": LibFunc("bisect.bisect_right", bisect_model("right")),
        "bisect_left": LibFunc("bisect.bisect_left", bisect_model("left")),
        "bisect": LibFunc("bisect.bisect", bisect_model("right")),
    })
    engine.lib["cytoolz"] = LibNS("cytoolz", {
        "compose": LibFunc("cytoolz.compose", lambda I, *fs: Composed(fs)),
    })
    engine.lib["toolz"] = engine.lib["cytoolz"]
    engine.lib["functools"] = LibNS("functools", {
        "partial": LibFunc("functools.partial", lambda I, f, *a, **k: Partial(f, a, k)),
    })


class CooMatrixV:
    """scipy.sparse.coo_matrix((data, (row, col)), shape=...) kept structurally: the three coordinate arrays and the
    shape as given (ASSUMED: that is what the matrix contains; .toarray() is the dense array with those entries,
    duplicates summed)"""
    pyvc_symbolic = True

    def __init__(self, data, row, col, shape):
        self.data, self.row, self.col, self.shape = data, row, col, shape

    def pyvc_getattr(self, I, attr, node):
        if attr in ("data", "row", "col", "shape"):
            return getattr(self, attr)
        if attr == "toarray":
            return LibFunc("coo_matrix.toarray", lambda I: ("dense array of", self))
        raise Unsupported("coo_matrix." + attr)


def _coo_matrix(I, arg, shape=None, **kw):
    data, (row, col) = arg
    return CooMatrixV(data, row, col, shape)


_old_install = install


def install(engine):        # noqa: F811
    _old_install(engine)
    engine.lib["scipy.sparse"] = LibNS("scipy.sparse", {"coo_matrix": LibFunc("scipy.sparse.coo_matrix", _coo_matrix)})
    engine.lib["scipy.sparse.coo_matrix"] = engine.lib["scipy.sparse"].get("coo_matrix")
