"""Discharging obligations: goal stripping, skolemisation, sound instantiation
of quantified hypotheses, z3 (python API) first, cvc5 (CLI) on z3's unknowns.

Soundness notes
 * dropping or instantiating a universally quantified *hypothesis* only
   weakens the hypotheses, so ``unsat`` of the instantiated query proves the
   obligation;
 * ``sat`` is only reported as a refutation when obtained on the full query
   (all quantified hypotheses present); a ``sat`` on the instantiated query
   alone yields a *candidate* model that has to be confirmed by replay;
 * ``unknown``/timeouts are never mapped to a verdict.
"""
from __future__ import annotations

import itertools
import multiprocessing as mp
import os
import subprocess
import tempfile
import time

import z3

MAX_TERMS = 40
MAX_INST = 4000


def split_and(e, out=None):
    if out is None:
        out = []
    if z3.is_and(e):
        for c in e.children():
            split_and(c, out)
    else:
        out.append(e)
    return out


def is_forall(e):
    return z3.is_quantifier(e) and e.is_forall()


_sk = itertools.count()


def strip_goal(goal):
    """goal -> list of (extra_hyps, atomic_goal) by splitting conjunctions,
    moving antecedents to the hypotheses and skolemising universal goals"""
    out = []

    def rec(g, hyps):
        if z3.is_and(g):
            for c in g.children():
                rec(c, hyps)
            return
        if z3.is_implies(g):
            rec(g.arg(1), hyps + [g.arg(0)])
            return
        if is_forall(g):
            n = g.num_vars()
            consts = []
            for i in range(n):
                consts.append(z3.Const(f"sk!{g.var_name(i)}!{next(_sk)}", g.var_sort(i)))
            body = z3.substitute_vars(g.body(), *reversed(consts))
            rec(body, hyps)
            return
        out.append((hyps, g))
    rec(goal, [])
    return out


_HQ = {}
_KEEP = []


def has_quant(e, cache=None):
    i0 = e.get_id()
    r = _HQ.get(i0)
    if r is not None:
        return r
    stack = [e]
    seen = set()
    res = False
    while stack:
        t = stack.pop()
        i = t.get_id()
        if i in seen:
            continue
        seen.add(i)
        c = _HQ.get(i)
        if c is True:
            res = True
            break
        if c is False:
            continue
        if z3.is_quantifier(t):
            res = True
            break
        stack.extend(t.children())
    _HQ[i0] = res
    _KEEP.append(e)
    return res


def has_var(t):
    stack = [t]
    seen = set()
    while stack:
        x = stack.pop()
        if z3.is_var(x):
            return True
        i = x.get_id()
        if i in seen:
            continue
        seen.add(i)
        stack.extend(x.children())
    return False


def index_terms(formulas, acc, seen):
    """ground integer arguments of uninterpreted function applications"""
    stack = list(formulas)
    while stack:
        t = stack.pop()
        i = t.get_id()
        if i in seen:
            continue
        seen.add(i)
        if z3.is_quantifier(t):
            stack.append(t.body())
            continue
        if z3.is_app(t):
            d = t.decl()
            if d.kind() == z3.Z3_OP_UNINTERPRETED and t.num_args() > 0:
                for a in t.children():
                    if z3.is_int(a) and not has_var(a):
                        acc.setdefault(a.get_id(), a)
            stack.extend(t.children())


def prepare(hyps, goal, extra_terms=()):
    """returns (ground_hyps, quant_hyps, instances, neg_goal)"""
    ground, quants = [], []
    for h in hyps:
        for c in split_and(h):
            if is_forall(c):
                quants.append(c)
            elif has_quant(c):
                quants.append(c)  # nested / existential: left to the solver
            else:
                ground.append(c)
    neg = z3.Not(goal)
    terms = {}
    seen = set()
    index_terms(ground + [neg], terms, seen)
    for t in extra_terms:
        terms.setdefault(t.get_id(), t)
    # skolem constants of the goal
    stack = [neg]
    sseen = set()
    while stack:
        t = stack.pop()
        if t.get_id() in sseen:
            continue
        sseen.add(t.get_id())
        if z3.is_const(t) and z3.is_int(t) and t.decl().kind() == z3.Z3_OP_UNINTERPRETED and str(t).startswith("sk!"):
            terms.setdefault(t.get_id(), t)
        stack.extend(t.children())
    instances = []
    done = set()
    pending_quants = list(quants)
    all_foralls = [q for q in quants if is_forall(q)]
    for rnd in range(3):
        base = list(terms.values())
        cand = {}
        for t in base:
            cand.setdefault(t.get_id(), t)
        if rnd == 0:
            for t in base:
                for d in (t + 1, t - 1):
                    d = z3.simplify(d)
                    cand.setdefault(d.get_id(), d)
        cl = list(cand.values())[:MAX_TERMS]
        new_ground = []
        new_foralls = []
        for q in all_foralls:
            nv = q.num_vars()
            if nv > 2:
                continue
            sorts_ok = all(q.var_sort(i) == z3.IntSort() for i in range(nv))
            if not sorts_ok:
                continue
            combos = [(t,) for t in cl] if nv == 1 else list(itertools.product(cl[:24], repeat=2))
            for combo in combos:
                key = (q.get_id(),) + tuple(t.get_id() for t in combo)
                if key in done:
                    continue
                done.add(key)
                if len(done) > MAX_INST:
                    break
                inst = z3.substitute_vars(q.body(), *reversed(combo))
                for c in split_and(z3.simplify(inst)):
                    if z3.is_true(c):
                        continue
                    if is_forall(c):
                        new_foralls.append(c)
                    elif has_quant(c):
                        # e.g. guard -> forall: keep as a (conditional) quantified hyp
                        pass  # dropped from the instantiated query (sound); still in the full query
                    else:
                        new_ground.append(c)
        instances.extend(new_ground)
        seen_f = {q.get_id() for q in all_foralls}
        for q in new_foralls:
            if q.get_id() not in seen_f:
                all_foralls.append(q)
                seen_f.add(q.get_id())
        before = len(terms)
        index_terms(new_ground, terms, seen)
        if len(terms) == before and not new_foralls:
            break
        if len(done) > MAX_INST:
            break
    return ground, quants, instances, neg


def to_smt2(assertions):
    s = z3.Solver()
    for a in assertions:
        s.add(a)
    return s.to_smt2()


def _run_z3(smt2, timeout_ms, seed=0):
    ctx = z3.Context()
    s = z3.Solver(ctx=ctx)
    s.set("timeout", int(timeout_ms))
    if seed:
        s.set("random_seed", seed)
    s.from_string(smt2)
    t0 = time.time()
    r = s.check()
    dt = time.time() - t0
    res = str(r)
    model = None
    if r == z3.sat:
        try:
            model = s.model().sexpr()
        except Exception:
            model = None
    reason = s.reason_unknown() if r == z3.unknown else ""
    return res, dt, model, reason


def _run_cvc5(smt2, timeout_ms, strings=False):
    exe = "/usr/bin/cvc5"
    if not os.path.exists(exe):
        return "unknown", 0.0, None, "cvc5 not installed"
    text = "(set-logic ALL)\n" + smt2
    with tempfile.NamedTemporaryFile("w", suffix=".smt2", delete=False) as fh:
        fh.write(text)
        fn = fh.name
    t0 = time.time()
    try:
        cmd = [exe, f"--tlimit={int(timeout_ms)}", "--lang=smt2"]
        if strings:
            cmd.append("--strings-exp")
        cmd.append(fn)
        out = subprocess.run(cmd, capture_output=True, text=True, timeout=timeout_ms / 1000 + 10)
        first = (out.stdout.strip().splitlines() or ["unknown"])[0].strip()
        if first not in ("sat", "unsat", "unknown"):
            first = "unknown"
        return first, time.time() - t0, None, out.stderr.strip()[:200]
    except subprocess.TimeoutExpired:
        return "unknown", time.time() - t0, None, "timeout"
    finally:
        os.unlink(fn)


def solve_job(job):
    """worker: job = dict(name, smt_a, smt_b, timeout_ms, expect_sat, strings)
    returns dict(name, status, backend, seconds, model, detail)"""
    name = job["name"]
    t_ms = job["timeout_ms"]
    total = 0.0
    try:
        if job.get("expect_sat"):
            # cover obligation (vacuity guard): the conjunction must be satisfiable.
            # Decided on the instantiated query: unsat there => unsat (sound);
            # sat there is taken as covered (quantified facts only instantiated).
            res, dt, model, why = _run_z3(job["smt_a"], min(t_ms, 10000))
            total += dt
            if res == "sat":
                return dict(name=name, status="covered", backend="z3/inst", seconds=total, model=None, detail="")
            if res == "unsat":
                return dict(name=name, status="uncovered", backend="z3/inst", seconds=total, model=None, detail="")
            return dict(name=name, status="cover-unknown", backend="z3", seconds=total, model=None, detail=why)
        cand = None
        if job["smt_a"] is not None:
            res, dt, model, why = _run_z3(job["smt_a"], t_ms)
            total += dt
            if res == "unsat":
                return dict(name=name, status="proved", backend="z3/inst", seconds=total, model=None, detail="")
            if res == "sat":
                cand = model
                if not job["has_quant"]:
                    return dict(name=name, status="refuted", backend="z3", seconds=total, model=model, detail="")
        res, dt, model, why = _run_z3(job["smt_b"], t_ms)
        total += dt
        if res == "unsat":
            return dict(name=name, status="proved", backend="z3/full", seconds=total, model=None, detail="")
        if res == "sat":
            return dict(name=name, status="refuted", backend="z3/full", seconds=total, model=model, detail="")
        # z3 unknown -> cvc5
        res3, dt3, _, why3 = _run_cvc5(job["smt_b"], t_ms, job.get("strings", False))
        total += dt3
        if res3 == "unsat":
            return dict(name=name, status="proved", backend="cvc5", seconds=total, model=None, detail="")
        if res3 == "sat":
            return dict(name=name, status="refuted", backend="cvc5", seconds=total, model=cand, detail="model from z3 instantiated query" if cand else "")
        # second z3 attempt with another seed
        res4, dt4, model4, why4 = _run_z3(job["smt_b"], t_ms, seed=17)
        total += dt4
        if res4 == "unsat":
            return dict(name=name, status="proved", backend="z3/full/seed17", seconds=total, model=None, detail="")
        if res4 == "sat":
            return dict(name=name, status="refuted", backend="z3/full/seed17", seconds=total, model=model4, detail="")
        return dict(name=name, status="unknown", backend="z3+cvc5", seconds=total, model=cand,
                    detail=f"z3: {why}; cvc5: {why3}; candidate-model={'yes' if cand else 'no'}")
    except Exception as e:  # checker error, not a verdict
        return dict(name=name, status="error", backend="-", seconds=total, model=None, detail=f"{type(e).__name__}: {e}")


def make_jobs(obl, timeout_ms):
    """one Obligation -> list of jobs (goal conjuncts are separate jobs)"""
    jobs = []
    if obl.expect_sat:
        ground, quants, instances, _ = prepare(obl.hyps, z3.BoolVal(False))
        smt_b = to_smt2(list(obl.hyps) + [obl.goal])
        smt_a = to_smt2(ground + instances + [obl.goal])
        jobs.append(dict(name=obl.name, smt_a=smt_a, smt_b=smt_b, timeout_ms=timeout_ms, expect_sat=True,
                         has_quant=bool(quants), path=obl.path_id))
        return jobs
    parts = strip_goal(obl.goal)
    for i, (extra, g) in enumerate(parts):
        hyps = list(obl.hyps) + list(extra)
        ground, quants, instances, neg = prepare(hyps, g)
        hq = bool(quants) or has_quant(neg)
        smt_a = to_smt2(ground + instances + [neg]) if hq else to_smt2(ground + [neg])
        smt_b = to_smt2(hyps + [neg]) if hq else smt_a
        nm = obl.name if len(parts) == 1 else f"{obl.name}/{i}"
        strings = "String" in smt_b
        jobs.append(dict(name=nm, smt_a=smt_a, smt_b=smt_b, timeout_ms=timeout_ms, expect_sat=False,
                         has_quant=hq, path=obl.path_id, strings=strings))
    return jobs


_OBLS = []
_TIMEOUT = [30000]


def _work(i):
    o = _OBLS[i]
    out = []
    try:
        jobs = make_jobs(o, _TIMEOUT[0])
    except Exception as e:
        return [dict(name=o.name, status="error", backend="-", seconds=0.0, model=None,
                     detail=f"prepare: {type(e).__name__}: {e}", path=o.path_id, lineno=o.lineno,
                     note=o.note, smt_b="")]
    for j in jobs:
        r = solve_job(j)
        r["name"] = j["name"]
        r["path"] = j["path"]
        r["lineno"] = o.lineno
        r["note"] = o.note
        r["smt_b"] = j["smt_b"] if r["status"] not in ("proved", "covered") else ""
        r["smt_size"] = len(j["smt_b"])
        out.append(r)
    return out


def solve_all(obls, timeout_ms=30000, workers=8, progress=None):
    """returns list of result dicts (one per job).  Obligations with identical
    hypotheses and goal (same z3 ASTs) are solved once."""
    global _OBLS
    uniq = {}
    order = []
    for o in obls:
        key = (tuple(h.get_id() for h in o.hyps), o.goal.get_id(), o.expect_sat)
        if key not in uniq:
            uniq[key] = len(order)
            order.append(o)
    _OBLS = order
    _TIMEOUT[0] = timeout_ms
    if workers <= 1 or len(order) <= 1:
        outs = [_work(i) for i in range(len(order))]
    else:
        with mp.get_context("fork").Pool(min(workers, len(order))) as pool:
            outs = pool.map(_work, range(len(order)), chunksize=1)
    final = []
    for o in obls:
        key = (tuple(h.get_id() for h in o.hyps), o.goal.get_id(), o.expect_sat)
        for r in outs[uniq[key]]:
            r2 = dict(r)
            r2["name"] = r["name"].replace(order[uniq[key]].name, o.name, 1)
            r2["path"] = o.path_id
            final.append(r2)
    return final
