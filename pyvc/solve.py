"""Discharging obligations: goal stripping, skolemisation, sound instantiation
of quantified hypotheses, z3 (python API) first, cvc5 (CLI) on z3's unknowns.

Soundness notes
 * dropping or instantiating a universally quantified *hypothesis* only
   weakens the hypotheses, so ``unsat`` of the instantiated query proves the
   obligation;
 * ``sat`` is only reported as a refutation when obtained on the full query
   (all quantified hypotheses present); a ``sat`` on the instantiated query
   alone yields a *candidate* model that has to be confirmed by replay;
 * ``unknown``/timeouts are never mapped to a verdict.
"""
from __future__ import annotations

import itertools
import multiprocessing as mp
import os
import re
import subprocess
import tempfile
import time

import z3

MAX_TERMS = 60
MAX_INST = 12000


def split_and(e, out=None):
    if out is None:
        out = []
    if z3.is_and(e):
        for c in e.children():
            split_and(c, out)
    else:
        out.append(e)
    return out


def is_forall(e):
    return z3.is_quantifier(e) and e.is_forall()


_sk = itertools.count()


def strip_goal(goal):
    """goal -> list of (extra_hyps, atomic_goal) by splitting conjunctions,
    moving antecedents to the hypotheses and skolemising universal goals"""
    out = []

    def rec(g, hyps):
        if z3.is_and(g):
            for c in g.children():
                rec(c, hyps)
            return
        if z3.is_implies(g):
            rec(g.arg(1), hyps + [g.arg(0)])
            return
        if z3.is_not(g) and z3.is_quantifier(g.arg(0)) and g.arg(0).is_exists():
            # not exists x. B   ==   forall x. not B
            e = g.arg(0)
            consts = [z3.Const(f"sk!{e.var_name(i)}!{next(_sk)}", e.var_sort(i)) for i in range(e.num_vars())]
            rec(z3.Not(z3.substitute_vars(e.body(), *reversed(consts))), hyps)
            return
        if z3.is_not(g) and z3.is_or(g.arg(0)):
            # not (A \/ B \/ ...)  ==  not A /\ not B /\ ...
            for c in g.arg(0).children():
                rec(z3.Not(c), hyps)
            return
        if z3.is_not(g) and z3.is_and(g.arg(0)):
            # not (A /\ B /\ ...)  is proved by refuting the conjuncts taken as hypotheses
            kids = []
            for c in g.arg(0).children():
                kids.extend(split_and(c))
            out.append((hyps + kids, z3.BoolVal(False)))
            return
        if is_forall(g):
            n = g.num_vars()
            consts = []
            for i in range(n):
                consts.append(z3.Const(f"sk!{g.var_name(i)}!{next(_sk)}", g.var_sort(i)))
            body = z3.substitute_vars(g.body(), *reversed(consts))
            rec(body, hyps)
            return
        out.append((hyps, g))
    rec(goal, [])
    return out


_HQ = {}
_KEEP = []


def has_quant(e, cache=None):
    i0 = e.get_id()
    r = _HQ.get(i0)
    if r is not None:
        return r
    stack = [e]
    seen = set()
    res = False
    while stack:
        t = stack.pop()
        i = t.get_id()
        if i in seen:
            continue
        seen.add(i)
        c = _HQ.get(i)
        if c is True:
            res = True
            break
        if c is False:
            continue
        if z3.is_quantifier(t):
            res = True
            break
        stack.extend(t.children())
    _HQ[i0] = res
    _KEEP.append(e)
    return res


def has_var(t):
    stack = [t]
    seen = set()
    while stack:
        x = stack.pop()
        if z3.is_var(x):
            return True
        i = x.get_id()
        if i in seen:
            continue
        seen.add(i)
        stack.extend(x.children())
    return False


def index_terms(formulas, acc, seen):
    """ground integer arguments of uninterpreted function applications"""
    stack = list(formulas)
    while stack:
        t = stack.pop()
        i = t.get_id()
        if i in seen:
            continue
        seen.add(i)
        if z3.is_quantifier(t):
            stack.append(t.body())
            continue
        if z3.is_app(t):
            d = t.decl()
            if d.kind() == z3.Z3_OP_UNINTERPRETED and t.num_args() > 0:
                for a in t.children():
                    if z3.is_int(a) and not has_var(a):
                        acc.setdefault(a.get_id(), a)
            stack.extend(t.children())


def guard_terms(q, acc):
    """ground terms that bound the quantified variable(s) in the guard of a
    bounded forall:  ForAll k. (lo <= k /\ k < hi) -> ...   gives lo, hi, hi-1"""
    body = q.body()
    if not z3.is_implies(body):
        return
    guard = body.arg(0)
    for c in split_and(guard):
        if z3.is_app(c) and c.num_args() == 2 and c.decl().kind() in (z3.Z3_OP_LE, z3.Z3_OP_LT, z3.Z3_OP_GE, z3.Z3_OP_GT):
            a, b = c.arg(0), c.arg(1)
            for x, y in ((a, b), (b, a)):
                if z3.is_var(x) and z3.is_int(y) and not has_var(y):
                    for t in (y, z3.simplify(y - 1), z3.simplify(y + 1)):
                        acc.setdefault(t.get_id(), t)


def _decompose(arg, nv):
    """arg == Var(i) + ground  ->  (i, ground_offset or None)"""
    if z3.is_var(arg):
        return z3.get_var_index(arg), None
    if z3.is_app(arg) and z3.is_int(arg):
        if arg.num_args() and any(z3.is_app(c) and c.decl().kind() in (z3.Z3_OP_ADD, z3.Z3_OP_SUB) for c in arg.children()):
            arg = z3.simplify(arg)      # flatten nested sums:  a + (0 + k)  ->  a + k
            if z3.is_var(arg):
                return z3.get_var_index(arg), None
        k = arg.decl().kind()
        if k == z3.Z3_OP_ADD:
            vs = [c for c in arg.children() if z3.is_var(c)]
            rest = [c for c in arg.children() if not z3.is_var(c)]
            if len(vs) == 1 and all(not has_var(c) for c in rest):
                off = rest[0]
                for c in rest[1:]:
                    off = off + c
                return z3.get_var_index(vs[0]), off
        if k == z3.Z3_OP_SUB and arg.num_args() == 2 and z3.is_var(arg.arg(0)) and not has_var(arg.arg(1)):
            return z3.get_var_index(arg.arg(0)), -arg.arg(1)
    return None


def var_patterns(q):
    """for each bound variable: [(decl, argpos, offset)] occurrences as function arguments"""
    nv = q.num_vars()
    pats = {i: [] for i in range(nv)}
    seen = set()
    stack = [q.body()]
    while stack:
        t = stack.pop()
        i = t.get_id()
        if i in seen:
            continue
        seen.add(i)
        if z3.is_quantifier(t):
            # nested quantifier: its body refers to outer vars with shifted indices; skip (handled after outer instantiation)
            continue
        if z3.is_app(t):
            d = t.decl()
            if d.kind() == z3.Z3_OP_UNINTERPRETED and t.num_args() > 0:
                for pos, a in enumerate(t.children()):
                    dec = _decompose(a, nv)
                    if dec is not None and dec[0] < nv:
                        pats[dec[0]].append((d, pos, dec[1]))
            stack.extend(t.children())
    return pats


def ground_apps(formulas, acc, seen):
    """decl name -> {argpos -> {id: ground int arg}}"""
    stack = list(formulas)
    while stack:
        t = stack.pop()
        i = t.get_id()
        if i in seen:
            continue
        seen.add(i)
        if z3.is_quantifier(t):
            stack.append(t.body())
            continue
        if z3.is_app(t):
            d = t.decl()
            if d.kind() == z3.Z3_OP_UNINTERPRETED and t.num_args() > 0:
                for pos, a in enumerate(t.children()):
                    if z3.is_int(a) and not has_var(a):
                        acc.setdefault((d.name(), pos), {}).setdefault(a.get_id(), a)
            stack.extend(t.children())


_INST_CACHE = {}
_CLASS_CACHE = {}
_LONG = [False]


def classify(hyps):
    key = tuple(h.get_id() for h in hyps)
    r = _CLASS_CACHE.get(key)
    if r is not None:
        return r
    ground, quants = [], []
    work = []
    for h in hyps:
        work.extend(split_and(h))
    flat = []
    while work:
        c = work.pop(0)
        if z3.is_quantifier(c) and c.is_exists():
            # existential hypothesis: name the witness
            work = _skolemize_exists(c) + work
        elif z3.is_not(c) and is_forall(c.arg(0)):
            work = _skolemize_not_forall(c.arg(0)) + work
        else:
            flat.append(c)
    for h in [None]:
        for c in flat:
            if is_forall(c):
                quants.append(c)
            elif has_quant(c):
                # G -> forall x. B   is rewritten to   forall x. (G -> B)   (equivalent) so that the
                # instantiator can use it; other shapes (existentials ...) are left to the solver
                n = None
                if z3.is_implies(c) and is_forall(c.arg(1)) and not has_quant(c.arg(0)):
                    q = c.arg(1)
                    vs = [z3.Const(f"cq!{q.var_name(i)}!{next(_sk)}", q.var_sort(i)) for i in range(q.num_vars())]
                    body = z3.substitute_vars(q.body(), *reversed(vs))
                    n = z3.ForAll(vs, z3.Implies(c.arg(0), body))
                    _KEEP.append(n)
                quants.append(n if n is not None else c)
            else:
                ground.append(c)
    _CLASS_CACHE[key] = (ground, quants)
    if len(_CLASS_CACHE) > 64:
        _CLASS_CACHE.pop(next(iter(_CLASS_CACHE)))
    return ground, quants


class Instantiator:
    """Offset-aware E-matching, round by round.  A bound variable k occurring as
    f(k + c) is instantiated with T - c for every ground application f(T) in
    the query (z3's own E-matching does not match modulo arithmetic offsets),
    plus the bounds of its guard.  Instantiation only weakens hypotheses: sound."""

    def __init__(self, ground, quants, neg, seeds=None):
        self.apps = {}
        self.aseen = set()
        # seeds: start matching from the terms of the goal side only (goal-directed); new terms
        # produced by the instances are followed in later rounds
        ground_apps((list(seeds) if seeds is not None else ground) + [neg], self.apps, self.aseen)
        self.all_foralls = [q for q in quants if is_forall(q)]
        self.seen_f = {q.get_id() for q in self.all_foralls}
        self.done = set()
        self.total = 0
        self.finished = False

    def round(self):
        """returns the new ground instances of this round ([] when saturated)"""
        if self.finished:
            return []
        new_ground = []
        new_foralls = []
        for q in list(self.all_foralls):
            nv = q.num_vars()
            if nv > 2 or not all(q.var_sort(i) == z3.IntSort() for i in range(nv)):
                continue
            pats = _PAT_CACHE.get(q.get_id())
            if pats is None:
                bt = {}
                guard_terms(q, bt)
                pats = (var_patterns(q), bt)
                _PAT_CACHE[q.get_id()] = pats
                _KEEP.append(q)
            pats, bt = pats
            cands = []
            for vi in range(nv):
                cs = {}
                for (d, pos, off) in pats[vi]:
                    for T in self.apps.get((d.name(), pos), {}).values():
                        t = T if off is None else z3.simplify(T - off)
                        cs.setdefault(t.get_id(), t)
                if nv == 1 or not cs:
                    for t in bt.values():
                        cs.setdefault(t.get_id(), t)
                cands.append(list(cs.values()))
            if nv == 1:
                combos = [(t,) for t in cands[0]]
            else:
                def pick(xs):
                    return xs if len(xs) <= 24 else xs[:8] + xs[-16:]
                combos = [(a, b) for a in pick(cands[0]) for b in pick(cands[1])]
            for combo in combos:
                key = (q.get_id(),) + tuple(t.get_id() for t in combo)
                if key in self.done:
                    continue
                self.done.add(key)
                self.total += 1
                if self.total > MAX_INST:
                    break
                parts = _INST_CACHE.get(key)
                if parts is None:
                    inst = z3.substitute_vars(q.body(), *combo)
                    parts = [c for c in split_and(z3.simplify(inst)) if not z3.is_true(c)]
                    _INST_CACHE[key] = parts
                    _KEEP.append(q)
                    _KEEP.extend(combo)
                parts2 = []
                for c in parts:
                    if z3.is_not(c) and z3.is_and(c.arg(0)) and has_quant(c):
                        # De Morgan, so that quantified conjuncts surface as disjuncts
                        c = z3.Or(*[ch.arg(0) if z3.is_not(ch) else z3.Not(ch) for ch in c.arg(0).children()])
                    # existential consequence: name the witness (skolemise)
                    if z3.is_quantifier(c) and c.is_exists():
                        parts2.extend(_skolemize_exists(c))
                    elif z3.is_not(c) and is_forall(c.arg(0)):
                        parts2.extend(_skolemize_not_forall(c.arg(0)))
                    elif z3.is_or(c) and has_quant(c):
                        # G \/ exists q. B   ==   exists q. (G \/ B): name the witness inside the disjunction
                        kids, changed = [], False
                        for ch in c.children():
                            if z3.is_quantifier(ch) and ch.is_exists():
                                kids.append(z3.And(*_skolemize_exists(ch)) if _skolemize_exists(ch) else z3.BoolVal(True))
                                changed = True
                            elif z3.is_not(ch) and is_forall(ch.arg(0)):
                                sk_ = _skolemize_not_forall(ch.arg(0))
                                kids.append(z3.And(*sk_) if sk_ else z3.BoolVal(True))
                                changed = True
                            else:
                                kids.append(ch)
                        parts2.append(z3.Or(*kids) if changed else c)
                    else:
                        parts2.append(c)
                for c in parts2:
                    if is_forall(c):
                        new_foralls.append(c)
                    elif has_quant(c):
                        if z3.is_or(c) or z3.is_implies(c):
                            cf = _CF_CACHE.get(c.get_id())
                            if cf is None:
                                cf = _cond_foralls(c)
                                _CF_CACHE[c.get_id()] = cf
                                _KEEP.append(c)
                            new_foralls.extend(cf)
                    else:
                        new_ground.append(c)
            if self.total > MAX_INST:
                break
        added = False
        for qn in new_foralls:
            if qn.get_id() not in self.seen_f:
                self.all_foralls.append(qn)
                self.seen_f.add(qn.get_id())
                added = True
        before = sum(len(v) for v in self.apps.values())
        ground_apps(new_ground, self.apps, self.aseen)
        after = sum(len(v) for v in self.apps.values())
        if (after == before and not added) or self.total > MAX_INST:
            self.finished = True
        return new_ground


_PAT_CACHE = {}
_CF_CACHE = {}
_SKO_CACHE = {}


def _skolemize_exists(c):
    r = _SKO_CACHE.get(c.get_id())
    if r is None:
        vs = [z3.Const(f"wit!{c.var_name(i)}!{next(_sk)}", c.var_sort(i)) for i in range(c.num_vars())]
        body = z3.substitute_vars(c.body(), *reversed(vs))
        r = [x for x in split_and(z3.simplify(body)) if not z3.is_true(x)]
        _SKO_CACHE[c.get_id()] = r
        _KEEP.append(c)
    return r


def _skolemize_not_forall(q):
    r = _SKO_CACHE.get(("n", q.get_id()))
    if r is None:
        vs = [z3.Const(f"wit!{q.var_name(i)}!{next(_sk)}", q.var_sort(i)) for i in range(q.num_vars())]
        body = z3.Not(z3.substitute_vars(q.body(), *reversed(vs)))
        r = [x for x in split_and(z3.simplify(body)) if not z3.is_true(x)]
        _SKO_CACHE[("n", q.get_id())] = r
        _KEEP.append(q)
    return r


def prepare(hyps, goal, extra_terms=(), rounds=6):
    """(ground_hyps, quant_hyps, instances, neg_goal): all rounds at once"""
    ground, quants = classify(hyps)
    neg = z3.Not(goal)
    ins = Instantiator(ground, quants, neg)
    instances = []
    for _ in range(rounds):
        new = ins.round()
        instances.extend(new)
        if ins.finished:
            break
    try:
        instances = instances + product_hints(ground + instances + [neg])
    except Exception:
        pass
    return ground, quants, instances, neg


def _cond_foralls(c):
    """(not G) or Forall...  with ground G: the quantifier guarded by G is turned into
    Forall x. G -> body  (equivalent), so that it can be instantiated"""
    out = []
    if z3.is_or(c):
        qs = [x for x in c.children() if is_forall(x)]
        rest = [x for x in c.children() if not is_forall(x)]
        if len(qs) == 1 and all(not has_quant(x) for x in rest):
            q = qs[0]
            vs = [z3.Const(f"cq!{q.var_name(i)}!{next(_sk)}", q.var_sort(i)) for i in range(q.num_vars())]
            body = z3.substitute_vars(q.body(), *reversed(vs))
            out.append(z3.ForAll(vs, z3.Or(*(rest + [body]))))
    return out


def product_hints(formulas):
    """sound nonlinear hints: for products x*b, y*b sharing a factor b that occur in
    the query, multiplication by a positive common factor is strictly monotone;
    for divisions a div b (b > 0): b*(a div b) <= a < b*(a div b) + b"""
    prods = {}
    divs = {}
    mods = []
    seen = set()
    stack = list(formulas)
    while stack:
        t = stack.pop()
        i = t.get_id()
        if i in seen:
            continue
        seen.add(i)
        if z3.is_quantifier(t):
            continue
        if z3.is_app(t):
            k = t.decl().kind()
            if k == z3.Z3_OP_MUL and t.num_args() == 2 and z3.is_int(t):
                a, b = t.arg(0), t.arg(1)
                if not z3.is_int_value(a) and not z3.is_int_value(b) and not has_var(t):
                    prods.setdefault(b.get_id(), (b, {}))[1][a.get_id()] = (a, t)
                    prods.setdefault(a.get_id(), (a, {}))[1][b.get_id()] = (b, t)
            elif k == z3.Z3_OP_IDIV and not has_var(t):
                a, b = t.arg(0), t.arg(1)
                if not z3.is_int_value(b):
                    divs[t.get_id()] = (a, b, t)
            elif k == z3.Z3_OP_MOD and not has_var(t):
                a, b = t.arg(0), t.arg(1)
                if not z3.is_int_value(b):
                    q = a / b
                    divs[q.get_id()] = (a, b, q)
                    mods.append((a, b, t, q))
            stack.extend(t.children())
    hints = []
    for a, b, t, q in mods[:12]:
        hints.append(z3.Implies(b > 0, z3.And(a == b * q + t, t >= 0, t < b)))
        # a is a multiple of b as soon as it equals some product b*y of the query
        for y, py in list(prods.get(b.get_id(), (b, {}))[1].values())[:8]:
            hints.append(z3.Implies(z3.And(b > 0, a == py), t == 0))
    for a, b, t in list(divs.values())[:12]:
        hints.append(z3.Implies(b > 0, z3.And(b * t <= a, a < b * t + b)))
        prods.setdefault(b.get_id(), (b, {}))[1][t.get_id()] = (t, b * t)
    for bid, (b, xs) in prods.items():
        items = list(xs.values())[:8]
        if len(items) < 2:
            continue
        for i in range(len(items)):
            for j in range(len(items)):
                if i == j:
                    continue
                (x, px), (y, py) = items[i], items[j]
                hints.append(z3.Implies(b > 0, z3.And(z3.Implies(x < y, px < py), z3.Implies(x <= y, px <= py),
                                                      z3.Implies(x < y, px + b <= py))))
    return hints


def to_smt2(assertions):
    s = z3.Solver()
    for a in assertions:
        s.add(a)
    return s.to_smt2()


def _run_z3(smt2, timeout_ms, seed=0):
    ctx = z3.Context()
    s = z3.Solver(ctx=ctx)
    s.set("timeout", int(timeout_ms))
    if seed:
        s.set("random_seed", seed)
    s.from_string(smt2)
    t0 = time.time()
    r = s.check()
    dt = time.time() - t0
    res = str(r)
    model = None
    if r == z3.sat:
        try:
            model = s.model().sexpr()
        except Exception:
            model = None
    reason = s.reason_unknown() if r == z3.unknown else ""
    return res, dt, model, reason


def _run_cvc5(smt2, timeout_ms, strings=False):
    exe = "/usr/bin/cvc5"
    if not os.path.exists(exe):
        return "unknown", 0.0, None, "cvc5 not installed"
    text = "(set-logic ALL)\n" + smt2
    with tempfile.NamedTemporaryFile("w", suffix=".smt2", delete=False) as fh:
        fh.write(text)
        fn = fh.name
    t0 = time.time()
    try:
        cmd = [exe, f"--tlimit={int(timeout_ms)}", "--lang=smt2"]
        if strings:
            cmd.append("--strings-exp")
        cmd.append(fn)
        out = subprocess.run(cmd, capture_output=True, text=True, timeout=timeout_ms / 1000 + 10)
        first = (out.stdout.strip().splitlines() or ["unknown"])[0].strip()
        if first not in ("sat", "unsat", "unknown"):
            first = "unknown"
        return first, time.time() - t0, None, out.stderr.strip()[:200]
    except subprocess.TimeoutExpired:
        return "unknown", time.time() - t0, None, "timeout"
    finally:
        os.unlink(fn)


def _model_text(s):
    try:
        return s.model().sexpr()
    except Exception:
        return None


_JOB_DEADLINE = [float("inf")]


def _out_of_time():
    """budget checks between solver stages (each stage has its own z3 timeout; this bounds their SUM per job and per
    proof stage, so that a broken tree costs minutes, not hours).  Expiry yields `unknown`, never a verdict."""
    now = time.time()
    return now > _JOB_DEADLINE[0] or now > _DEADLINE[0]


def _gave_up(t0, cand=None):
    return dict(status="unknown", backend="z3", seconds=time.time() - t0, model=cand,
                detail=f"wall-clock budget of the job / proof stage used up; candidate-model={'yes' if cand else 'no'}")


def prove_part(hyps, g, t_ms, name, goal_side=()):
    """prove  hyps ==> g  (g without top-level conjunction/forall): incremental
    instantiation rounds on one solver, then the full quantified query, then cvc5"""
    t0 = time.time()
    ground, quants = classify(hyps)
    neg = z3.Not(g)
    if z3.is_quantifier(g) and g.is_exists():
        # goal  exists x. B : its negation  forall x. not B  is a universally quantified hypothesis
        vs = [z3.Const(f"ng!{g.var_name(i)}!{next(_sk)}", g.var_sort(i)) for i in range(g.num_vars())]
        body = z3.substitute_vars(g.body(), *reversed(vs))
        q = z3.ForAll(vs, z3.Not(body))
        quants = list(quants) + [q]
        neg = z3.BoolVal(True)
        hyps = list(hyps) + [q]
    hq = bool(quants) or has_quant(neg)
    s = z3.Solver()
    for h in ground:
        s.add(h)
    s.add(neg)
    hints_done = set()
    all_fs = []

    def add_hints(fs):
        # hints relate products / quotients / remainders of the WHOLE query so far
        all_fs.extend(fs)
        for h in product_hints(all_fs):
            if h.get_id() not in hints_done:
                hints_done.add(h.get_id())
                s.add(h)
    add_hints(ground + [neg])
    s.set("timeout", int(min(t_ms, 4000) if hq else t_ms))
    r = s.check()
    if r == z3.unsat:
        return dict(status="proved", backend="z3/ground" if hq else "z3", seconds=time.time() - t0, model=None, detail="")
    if r == z3.sat and not hq:
        return dict(status="refuted", backend="z3", seconds=time.time() - t0, model=_model_text(s), detail="")
    if not hq:
        r3, dt3, _, why3 = _run_cvc5(to_smt2(ground + [neg]), t_ms, "String" in str(neg.sort()))
        if r3 == "unsat":
            return dict(status="proved", backend="cvc5", seconds=time.time() - t0, model=None, detail="")
        if r3 == "sat":
            return dict(status="refuted", backend="cvc5", seconds=time.time() - t0, model=None, detail="")
        return dict(status="unknown", backend="z3+cvc5", seconds=time.time() - t0, model=None,
                    detail=f"z3: {s.reason_unknown()}; cvc5: {why3}")
    cand = _model_text(s) if r == z3.sat else None
    # stage 1: goal-directed instantiation (terms of the goal and of its antecedents only)
    try:
        ins1 = Instantiator(ground, quants, neg, seeds=list(goal_side))
        n1 = 0
        for rnd in range(4):
            new = ins1.round()
            if new:
                n1 += len(new)
                for c in new:
                    s.add(c)
                add_hints(new)
                s.set("timeout", int(min(t_ms, 2500)))
                r = s.check()
                if r == z3.unsat:
                    return dict(status="proved", backend="z3/inst", seconds=time.time() - t0, model=None,
                                detail=f"goal-directed rounds={rnd + 1} instances={n1}")
            if ins1.finished or n1 > 1500:
                break
    except Exception:
        pass
    if _out_of_time():
        return _gave_up(t0, cand)
    ins = Instantiator(ground, quants, neg)
    all_inst = []
    for rnd in range(7):
        if _out_of_time():
            return _gave_up(t0, cand)
        new = ins.round()
        if new:
            all_inst.extend(new)
            for c in new:
                s.add(c)
            add_hints(new)
            s.set("timeout", int(min(t_ms, 3000 + 2000 * rnd)))
            r = s.check()
            if r == z3.unsat:
                return dict(status="proved", backend=f"z3/inst", seconds=time.time() - t0, model=None,
                            detail=f"rounds={rnd + 1} instances={len(all_inst)}")
            if r == z3.sat:
                cand = _model_text(s)
        if ins.finished:
            break
    # model-based refinement: validate candidate models against the bounded quantifiers, add the
    # violated instances, repeat.  A model that satisfies every quantified hypothesis over its whole
    # (concrete, bounded) range is a genuine counter-model.
    if _out_of_time():
        return _gave_up(t0, cand)
    try:
        st_, mtxt, nr = mbqi_lite(s, ground, quants, neg, min(0.75 * t_ms / 1000.0, 60.0))
    except Exception as e:   # never let the refinement decide by crashing
        st_, mtxt, nr = "unknown", None, 0
    if st_ == "proved":
        return dict(status="proved", backend="z3/mbqi-lite", seconds=time.time() - t0, model=None,
                    detail=f"refinement rounds={nr}")
    if st_ == "refuted":
        return dict(status="refuted", backend="z3/mbqi-lite", seconds=time.time() - t0, model=mtxt,
                    detail=f"model validated against every bounded quantified hypothesis; rounds={nr}")
    if mtxt:
        cand = mtxt
    if _out_of_time():
        return _gave_up(t0, cand)
    # full query: every quantified hypothesis present
    full = z3.Solver()
    for h in hyps:
        full.add(h)
    for h in product_hints(ground + [neg]):
        full.add(h)
    full.add(neg)
    full.set("timeout", int(0.75 * t_ms))
    r = full.check()
    if r == z3.unsat:
        return dict(status="proved", backend="z3/full", seconds=time.time() - t0, model=None, detail="")
    if r == z3.sat:
        return dict(status="refuted", backend="z3/full", seconds=time.time() - t0, model=_model_text(full), detail="")
    why = full.reason_unknown()
    if _out_of_time():
        return _gave_up(t0, cand)
    smt_b = full.to_smt2()
    r3, dt3, _, why3 = _run_cvc5(smt_b, 0.5 * t_ms, "String" in smt_b)
    if r3 == "unsat":
        return dict(status="proved", backend="cvc5", seconds=time.time() - t0, model=None, detail="")
    if r3 == "sat":
        return dict(status="refuted", backend="cvc5", seconds=time.time() - t0, model=cand,
                    detail="model from z3 instantiated query" if cand else "")
    if not _LONG[0]:
        return dict(status="unknown", backend="z3+cvc5", seconds=time.time() - t0, model=cand,
                    detail=f"z3: {why}; cvc5: {why3}; candidate-model={'yes' if cand else 'no'}")
    # thorough: instantiated query with the whole budget, then another seed on the full query
    s.set("timeout", int(t_ms))
    s.set("random_seed", 5)
    r = s.check()
    if r == z3.unsat:
        return dict(status="proved", backend="z3/inst/long", seconds=time.time() - t0, model=None, detail="")
    full.set("random_seed", 17)
    r = full.check()
    if r == z3.unsat:
        return dict(status="proved", backend="z3/full/seed17", seconds=time.time() - t0, model=None, detail="")
    if r == z3.sat:
        return dict(status="refuted", backend="z3/full/seed17", seconds=time.time() - t0, model=_model_text(full), detail="")
    return dict(status="unknown", backend="z3+cvc5", seconds=time.time() - t0, model=cand,
                detail=f"z3: {why}; cvc5: {why3}; candidate-model={'yes' if cand else 'no'}")


def _guard_range(q, m):
    """concrete [lo, hi) ranges of the bound variables of a bounded forall under model m
    (None if the guard has not the bounded shape)"""
    nv = q.num_vars()
    body = q.body()
    los, his = [None] * nv, [None] * nv
    g = None
    if z3.is_implies(body):
        g = body.arg(0)
    elif z3.is_or(body):
        # Or(not guard, ...) produced by simplification
        for c in body.children():
            if z3.is_not(c):
                g = c.arg(0) if g is None else z3.And(g, c.arg(0))
    if g is None:
        return None
    for c in split_and(g):
        if not (z3.is_app(c) and c.num_args() == 2):
            continue
        k = c.decl().kind()
        a, b = c.arg(0), c.arg(1)
        neg_ = False
        if z3.is_not(c):
            continue

        def val(t):
            v = m.eval(t, model_completion=True)
            return v.as_long() if z3.is_int_value(v) else None
        if z3.is_var(a) and not has_var(b):
            i = z3.get_var_index(a)
            v = val(b)
            if v is None or i >= nv:
                continue
            if k == z3.Z3_OP_GE:
                los[i] = v if los[i] is None else max(los[i], v)
            elif k == z3.Z3_OP_GT:
                los[i] = v + 1 if los[i] is None else max(los[i], v + 1)
            elif k == z3.Z3_OP_LT:
                his[i] = v if his[i] is None else min(his[i], v)
            elif k == z3.Z3_OP_LE:
                his[i] = v + 1 if his[i] is None else min(his[i], v + 1)
        elif z3.is_var(b) and not has_var(a):
            i = z3.get_var_index(b)
            v = val(a)
            if v is None or i >= nv:
                continue
            if k == z3.Z3_OP_LE:
                los[i] = v if los[i] is None else max(los[i], v)
            elif k == z3.Z3_OP_LT:
                los[i] = v + 1 if los[i] is None else max(los[i], v + 1)
            elif k == z3.Z3_OP_GT:
                his[i] = v if his[i] is None else min(his[i], v)
            elif k == z3.Z3_OP_GE:
                his[i] = v + 1 if his[i] is None else min(his[i], v + 1)
    if any(x is None for x in los) or any(x is None for x in his):
        return None
    return list(zip(los, his))


def model_violations(quants, m, limit=40, max_range=260, deadline=None):
    """Evaluate every (bounded) universally quantified hypothesis under model m over its
    concrete range.  Returns (violated_instances, complete): the instances that are false in m
    (consequences of the hypotheses: sound to add), and whether every hypothesis could be
    validated completely (then, with no violation, m is a genuine model of the full query)."""
    viol = []
    complete = True
    work = list(quants)
    seen = set()
    while work:
        if deadline is not None and time.time() > deadline:
            return viol, False
        q = work.pop()
        if q.get_id() in seen:
            continue
        seen.add(q.get_id())
        if not is_forall(q):
            # guard -> forall / existential ...: try the conditional-forall normal form
            if z3.is_or(q) or z3.is_implies(q):
                qq = z3.simplify(q)
                if z3.is_true(qq):
                    continue
                cfs = _cond_foralls(qq) if z3.is_or(qq) else []
                if cfs:
                    work.extend(cfs)
                    continue
            complete = False
            continue
        nv = q.num_vars()
        if nv > 2 or not all(q.var_sort(i) == z3.IntSort() for i in range(nv)):
            complete = False
            continue
        rng = _guard_range(q, m)
        if rng is None:
            complete = False
            continue
        sizes = [max(0, hi - lo) for lo, hi in rng]
        if any(sz > max_range for sz in sizes) or (nv == 2 and sizes[0] * sizes[1] > 3600):
            complete = False
            continue
        if nv == 1:
            combos = [(z3.IntVal(k),) for k in range(rng[0][0], rng[0][1])]
        else:
            combos = [(z3.IntVal(a), z3.IntVal(b)) for a in range(rng[0][0], rng[0][1])
                      for b in range(rng[1][0], rng[1][1])]
        for combo in combos:
            inst = z3.simplify(z3.substitute_vars(q.body(), *combo))
            if z3.is_true(inst):
                continue
            for c in split_and(inst):
                if has_quant(c):
                    if is_forall(c):
                        work.append(c)
                    elif z3.is_or(c):
                        # evaluate the ground disjuncts: if one is true the clause holds
                        gd = [x for x in c.children() if not has_quant(x)]
                        if any(z3.is_true(m.eval(x, model_completion=True)) for x in gd):
                            continue
                        cfs = _cond_foralls(c)
                        if cfs:
                            work.extend(cfs)
                        else:
                            complete = False
                    else:
                        complete = False
                    continue
                v = m.eval(c, model_completion=True)
                if z3.is_false(v):
                    viol.append(c)
                    if len(viol) >= limit:
                        return viol, False
                elif not z3.is_true(v):
                    complete = False
    return viol, complete


def int_consts(formulas):
    out = {}
    seen = set()
    stack = list(formulas)
    while stack:
        t = stack.pop()
        i = t.get_id()
        if i in seen:
            continue
        seen.add(i)
        if z3.is_quantifier(t):
            stack.append(t.body())
            continue
        if z3.is_const(t) and z3.is_int(t) and t.decl().kind() == z3.Z3_OP_UNINTERPRETED:
            out[i] = t
        stack.extend(t.children())
    return list(out.values())


def mbqi_lite(s, ground, quants, neg, budget_s):
    """model-based refinement on solver ``s`` (ground + instances + neg already asserted).
    returns ("proved"|"refuted"|"unknown", model_text, rounds)"""
    deadline = time.time() + budget_s
    consts = int_consts(ground + [neg])
    rounds = 0
    small_ok = True
    while time.time() < deadline and rounds < 25:
        rounds += 1
        m = None
        s.set("timeout", int(max(1000, min(8000, (deadline - time.time()) * 1000))))
        if small_ok:
            s.push()
            for c in consts:
                s.add(c >= -6, c <= 24)
            r = s.check()
            if r == z3.sat:
                m = s.model()
            s.pop()
            if r == z3.unsat:
                small_ok = False      # no small counter-model: go on without the size preference
        if m is None:
            r = s.check()
            if r == z3.unsat:
                return "proved", None, rounds
            if r != z3.sat:
                return "unknown", None, rounds
            m = s.model()
        viol, complete = model_violations(quants, m, deadline=deadline)
        if not viol:
            if complete and not has_quant(neg):
                return "refuted", m.sexpr(), rounds
            return "unknown", m.sexpr(), rounds
        for c in viol:
            s.add(c)
    return "unknown", None, rounds


def cover_part(hyps, goal, t_ms):
    """cover obligation (vacuity guard): hyps /\ goal must be satisfiable.  Decided on the
    instantiated query: unsat there => unsat (sound); sat there is taken as covered."""
    t0 = time.time()
    ground, quants = classify(hyps)
    s = z3.Solver()
    for h in ground:
        s.add(h)
    s.add(goal)
    ins = Instantiator(ground, quants, goal)
    for rnd in range(3):
        for c in ins.round():
            s.add(c)
        if ins.finished:
            break
    s.set("timeout", int(min(t_ms, 10000)))
    r = s.check()
    st = "covered" if r == z3.sat else ("uncovered" if r == z3.unsat else "cover-unknown")
    return dict(status=st, backend="z3/inst", seconds=time.time() - t0, model=None, detail="")


_OBLS = []
_TIMEOUT = [30000]


class _Watchdog:
    """hard wall-clock limit per job: z3's own timeout is not honoured inside some nonlinear / quantifier
    procedures, so after `limit` seconds the context is interrupted (and again every 2 s, so that the later stages
    of the same job end at once); the job then reports `unknown` - never a verdict"""

    def __init__(self, limit):
        import threading
        self.limit, self.fired, self.done = limit, False, False
        self.t = threading.Thread(target=self._run, daemon=True)
        self.t.start()

    def _run(self):
        import time as _t
        t0 = _t.time()
        while not self.done:
            _t.sleep(0.5)
            if _t.time() - t0 > self.limit and not self.done:
                self.fired = True
                try:
                    z3.main_ctx().interrupt()
                except Exception:
                    pass
                for _ in range(3):
                    if self.done:
                        break
                    _t.sleep(0.5)

    def stop(self):
        self.done = True


class _NoWatchdog:
    """interrupting the shared z3 context from a timer proved unreliable (a late interrupt cancels the NEXT job of
    the worker); the workers rely on z3's own timeouts, on skipping the remaining jobs of a clause that already
    failed, and on the wall-clock budget of the proof stage"""
    fired = False

    def stop(self):
        pass


_FLAGDIR = [None]
_DEADLINE = [float("inf")]


def _flag_path(name):
    import hashlib
    key = name      # per configuration: a clause recorded as a known finding must be decided in each of its configurations
    return os.path.join(_FLAGDIR[0], hashlib.md5(key.encode()).hexdigest()) if _FLAGDIR[0] else None


def _work(i):
    o = _OBLS[i]
    out = []
    hard = max(3.0 * _TIMEOUT[0] / 1000.0, 120.0) * (3.0 if _LONG[0] else 1.0)
    fp = _flag_path(o.name)
    if time.time() > _DEADLINE[0] and not o.expect_sat:
        return [dict(name=o.name, status="unknown", backend="-", seconds=0.0, model=None,
                     detail="skipped: the proof stage's wall-clock budget is used up", path=o.path_id, lineno=o.lineno,
                     note=o.note, smt_b="")]
    hard = max(10.0, min(hard, _DEADLINE[0] - time.time()))
    if fp and not o.expect_sat and os.path.exists(fp):
        # the same clause has already failed (refuted / undecided) on another path or configuration: its verdict cannot
        # become "proved" any more, so the remaining jobs of that clause are not run (keeps a broken tree from costing hours)
        return [dict(name=o.name, status="unknown", backend="-", seconds=0.0, model=None,
                     detail="skipped: another job of this clause already failed", path=o.path_id, lineno=o.lineno,
                     note=o.note, smt_b="")]
    wd = _NoWatchdog()
    # a job (all conjuncts of one obligation on one path) gets at most 4 x the per-query timeout (>= 120 s; x3 thorough)
    _JOB_DEADLINE[0] = time.time() + max(4.0 * _TIMEOUT[0] / 1000.0, 120.0) * (3.0 if _LONG[0] else 1.0)
    try:
        if o.expect_sat:
            r = cover_part(o.hyps, o.goal, _TIMEOUT[0])
            r.update(name=o.name, path=o.path_id, lineno=o.lineno, note=o.note, smt_b="")
            return [r]
        parts = strip_goal(o.goal)
        for k, (extra, g) in enumerate(parts):
            nm = o.name if len(parts) == 1 else f"{o.name}/{k}"
            try:
                r = prove_part(list(o.hyps) + list(extra), g, _TIMEOUT[0], nm, goal_side=list(extra))
            except Exception as e:
                if not wd.fired:
                    raise
                r = dict(status="unknown", backend="z3", seconds=hard, model=None,
                         detail=f"hard wall-clock limit of {hard:.0f} s reached ({type(e).__name__})")
            if wd.fired and r.get("status") not in ("proved", "refuted"):
                r["status"] = "unknown"
                r["detail"] = (r.get("detail") or "") + f" [hard wall-clock limit of {hard:.0f} s]"
            r.update(name=nm, path=o.path_id, lineno=o.lineno, note=o.note, smt_b="")
            out.append(r)

    except Exception as e:
        import traceback
        out.append(dict(name=o.name, status=("unknown" if wd.fired else "error"), backend="-", seconds=0.0, model=None,
                        detail=f"{type(e).__name__}: {e} {traceback.format_exc(limit=3)}", path=o.path_id,
                        lineno=o.lineno, note=o.note, smt_b=""))
    finally:
        wd.stop()
        if fp and any(r.get("status") in ("refuted", "unknown", "error") for r in out):
            try:
                open(fp, "w").close()
            except OSError:
                pass
    return out


def solve_all(obls, timeout_ms=30000, workers=8, progress=None, long=False):
    _LONG[0] = bool(long)
    """returns list of result dicts (one per job).  Obligations with identical
    hypotheses and goal (same z3 ASTs) are solved once."""
    global _OBLS
    uniq = {}
    order = []
    for o in obls:
        key = (tuple(h.get_id() for h in o.hyps), o.goal.get_id(), o.expect_sat)
        if key not in uniq:
            uniq[key] = len(order)
            order.append(o)
    _OBLS = order
    _TIMEOUT[0] = timeout_ms
    import tempfile
    import shutil
    _FLAGDIR[0] = tempfile.mkdtemp(prefix="pyvc_flags_")
    # wall-clock budget of the whole proof stage (the unchanged tree needs a few minutes; a broken tree must not cost hours)
    _DEADLINE[0] = time.time() + float(os.environ.get("VERIF_PROOF_BUDGET_S", "3600" if long else "900"))
    if workers <= 1 or len(order) <= 1:
        outs = [_work(i) for i in range(len(order))]
    else:
        idx = sorted(range(len(order)), key=lambda i: (order[i].func, order[i].path_id))
        nw = min(workers, len(order))
        cs = max(1, min(8, len(order) // (nw * 3)))
        with mp.get_context("fork").Pool(nw) as pool:
            outs_sorted = pool.map(_work, idx, chunksize=cs)
        outs = [None] * len(order)
        for i, r in zip(idx, outs_sorted):
            outs[i] = r
    shutil.rmtree(_FLAGDIR[0], ignore_errors=True)
    _FLAGDIR[0] = None
    final = []
    for o in obls:
        key = (tuple(h.get_id() for h in o.hyps), o.goal.get_id(), o.expect_sat)
        for r in outs[uniq[key]]:
            r2 = dict(r)
            r2["name"] = r["name"].replace(order[uniq[key]].name, o.name, 1)
            r2["path"] = o.path_id
            final.append(r2)
    return final
