"""Assumed contracts for Python builtins (trusted base: 'python builtins behave
as the language reference says')."""
from __future__ import annotations

import ast

import z3

from . import spec
from .values import (Arr, BoundMethod, ClassInfo, Closure, Composed, ConcatList,
                     DTypeV, EnumV, ExcClass, ExcVal, GenV, LibFunc, LibNS, Obj,
                     Opaque, Partial, PyRaise, Quot, RangeV, RealV, SegList, SliceV,
                     SymList, SymMap, Unsupported, ZipV, is_z3, to_term, EXC_BASES)


def native(fn):
    fn._pyvc_native = True
    return fn


class ZipMapV:
    """dict(zip(keys, values)) over arrays of symbolic length, kept as the two positional sequences
    (later duplicates of a key win, as in Python; no lookup is modelled - contracts inspect it positionally)"""

    def __init__(self, keys, vals):
        self.keys, self.vals = keys, vals

    def val_at(self, k):
        if isinstance(self.vals, RangeV):
            return to_term(self.vals.start) + k * to_term(self.vals.step)
        return self.vals.at(k)


class TypeTag:
    """a builtin / library type used in isinstance() and as a constructor"""

    def __init__(self, name, check, ctor=None):
        self.name = name
        self.check = check
        self.ctor = ctor

    def __repr__(self):
        return f"<type {self.name}>"


def is_strlike(x):
    return isinstance(x, (str, z3.SeqRef))


def is_intlike(x):
    return (isinstance(x, int) and not isinstance(x, bool)) or (isinstance(x, z3.ArithRef) and x.is_int())


def is_boollike(x):
    return isinstance(x, (bool, z3.BoolRef))


def b_len(I, x):
    if isinstance(x, (list, tuple, dict, str, set, frozenset)):
        return len(x)
    if isinstance(x, Arr):
        return x.n
    if isinstance(x, SymList):
        return x.n
    if isinstance(x, ConcatList):
        return x.count
    if isinstance(x, SegList):
        tot = 0
        for k, v in x.segs:
            tot = tot + (1 if k == "one" else v.n)
        return tot
    if isinstance(x, z3.SeqRef):
        return z3.Length(x)
    if isinstance(x, RangeV):
        items = I.concrete_items(x)
        if items is not None:
            return len(items)
        c, _ = I.sym_iter(x)
        return c
    if isinstance(x, Obj) and isinstance(x.cls, ClassInfo):
        m = x.cls.lookup("__len__")
        if m is not None:
            return I.call(m, [x], {})
    h = getattr(x, "pyvc_len", None)
    if h is not None:
        return h(I)
    if isinstance(x, GenV):
        raise PyRaise(ExcVal("TypeError", ("object of type 'generator' has no len()",)))
    raise Unsupported(f"len of {type(x).__name__}")


def b_int(I, x=0, base=None):
    if isinstance(x, bool):
        return int(x)
    if isinstance(x, int):
        return x
    if isinstance(x, float):
        return int(x)
    if isinstance(x, str):
        try:
            return int(x) if base is None else int(x, base)
        except ValueError:
            raise PyRaise(ExcVal("ValueError", ("invalid literal for int()",)))
    if isinstance(x, z3.ArithRef) and x.is_int():
        return x
    if isinstance(x, z3.BoolRef):
        return z3.If(x, 1, 0)
    if isinstance(x, (Quot, RealV)) or (isinstance(x, z3.ArithRef) and x.is_real()):
        from .floats import real_trunc
        return real_trunc(I, x)
    if isinstance(x, z3.SeqRef):
        from .strings import str_to_int
        return str_to_int(I, x)
    if isinstance(x, z3.FPRef):
        from .floats import fp_to_int
        return fp_to_int(I, x)
    if x is None or isinstance(x, (list, tuple, dict, SliceV, Obj)):
        raise PyRaise(ExcVal("TypeError", ("int() argument",)))
    h = getattr(x, "pyvc_int", None)
    if h is not None:
        return h(I)
    raise Unsupported(f"int() of {type(x).__name__}")


def b_float(I, x=0.0):
    if isinstance(x, (int, float)) and not isinstance(x, bool):
        return float(x)
    if isinstance(x, str):
        try:
            return float(x)
        except ValueError:
            raise PyRaise(ExcVal("ValueError", ("could not convert string to float",)))
    h = getattr(x, "pyvc_float", None)
    if h is not None:
        return h(I)
    if isinstance(x, z3.ArithRef):
        return RealV(z3.ToReal(x) if x.is_int() else x)
    if isinstance(x, (Quot, RealV)):
        return x
    raise Unsupported(f"float() of {type(x).__name__}")


def b_bool(I, x=False):
    return I.truthy(x)


def b_str(I, x=""):
    if isinstance(x, (str, z3.SeqRef)):
        return x
    if isinstance(x, bool) or x is None:
        return str(x)
    if isinstance(x, int):
        return str(x)
    if isinstance(x, z3.ArithRef) and x.is_int():
        return z3.IntToStr(x)
    return Opaque("str()")


def b_range(I, *a):
    if len(a) == 1:
        return RangeV(0, a[0], 1)
    if len(a) == 2:
        return RangeV(a[0], a[1], 1)
    return RangeV(a[0], a[1], a[2])


def b_zip(I, *parts, strict=False):
    return ZipV(list(parts))


def b_enumerate(I, it, start=0):
    return EnumV(it, start)


def b_tuple(I, x=()):
    items = I.concrete_items(x)
    if items is None:
        raise Unsupported(f"tuple() of symbolic-length {type(x).__name__}")
    return tuple(items)


def b_list(I, x=()):
    if isinstance(x, (LibFunc, Closure, Partial, BoundMethod, Composed)):
        # a function is not iterable
        raise PyRaise(ExcVal("TypeError", ("'function' object is not iterable",)))
    items = I.concrete_items(x)
    if items is None:
        if isinstance(x, GenV):
            return x.items
        if isinstance(x, (SymList, SegList)):
            return x
        if isinstance(x, Arr):
            return SymList(x.n, x.at)
        if isinstance(x, (ZipV, EnumV, RangeV)):
            c, f = I.sym_iter(x)
            return SymList(c, f)
        h = getattr(x, "pyvc_tolist", None)
        if h is not None:
            return h(I)
        raise Unsupported(f"list() of {type(x).__name__}")
    return list(items)


def b_dict(I, x=None, **kw):
    d = {}
    if x is not None:
        if isinstance(x, dict):
            d.update(x)
        else:
            items = I.concrete_items(x)
            if items is None:
                h = getattr(x, "pyvc_todict", None)
                if h is not None:
                    return h(I)
                if isinstance(x, ZipV) and len(x.parts) == 2 and getattr(x.parts[0], "pyvc_asarray", None) is not None:
                    x = ZipV([x.parts[0].pyvc_asarray(I), x.parts[1]])
                if isinstance(x, ZipV) and len(x.parts) == 2 and isinstance(x.parts[0], Arr) \
                        and isinstance(x.parts[1], (Arr, RangeV)):
                    # dict(zip(keys, values)) with symbolic length: kept structurally (positional view)
                    return ZipMapV(x.parts[0], x.parts[1])
                if isinstance(x, ZipV) and len(x.parts) == 2:
                    raise Unsupported("dict(zip(...)) over symbolic iterables (use a contract)")
                raise Unsupported("dict() of symbolic iterable")
            for k, v in items:
                d[k] = v
    d.update(kw)
    return d


def b_set(I, x=()):
    h = getattr(x, "pyvc_toset", None)
    if h is not None:
        return h(I)
    items = I.concrete_items(x)
    if items is None:
        raise Unsupported("set() of symbolic iterable")
    if any(is_z3(i) for i in items):
        raise Unsupported("set() of symbolic elements")
    return set(items)


def b_min(I, *a, **kw):
    if len(a) == 1:
        items = I.concrete_items(a[0])
        if items is None:
            raise Unsupported("min over symbolic iterable")
        a = items
    if not a:
        raise PyRaise(ExcVal("ValueError", ("min() arg is an empty sequence",)))
    r = a[0]
    for x in a[1:]:
        r = _ite_sel(I, I.compare(ast.Lt(), x, r), x, r)
    return r


def b_max(I, *a, **kw):
    if len(a) == 1:
        items = I.concrete_items(a[0])
        if items is None:
            raise Unsupported("max over symbolic iterable")
        a = items
    if not a:
        raise PyRaise(ExcVal("ValueError", ("max() arg is an empty sequence",)))
    r = a[0]
    for x in a[1:]:
        r = _ite_sel(I, I.compare(ast.Gt(), x, r), x, r)
    return r


def _ite_sel(I, c, a, b):
    if isinstance(c, bool):
        return a if c else b
    if isinstance(a, (int, z3.ArithRef)) and isinstance(b, (int, z3.ArithRef)):
        return z3.If(c, to_term(a), to_term(b))
    return a if I.path.branch(c) else b


def b_abs(I, x):
    if isinstance(x, (int, float)):
        return abs(x)
    if isinstance(x, z3.ArithRef):
        return z3.If(x >= 0, x, -x)
    if isinstance(x, Arr):
        return Arr(x.n, lambda k: z3.If(x.at(k) >= 0, x.at(k), -x.at(k)), x.kind, x.dtype)
    raise Unsupported("abs")


def b_sum(I, x, start=0):
    items = I.concrete_items(x)
    if items is None:
        raise Unsupported("sum over symbolic iterable (use a contract)")
    r = start
    for i in items:
        r = I.binop(ast.Add(), r, i)
    return r


def b_any(I, x):
    items = I.concrete_items(x)
    if items is None:
        if isinstance(x, GenV) and isinstance(x.items, SymList):
            sl = x.items
            return spec.exists(0, sl.n, lambda k: I.truthy(sl.at(k)))
        raise Unsupported("any over symbolic iterable")
    return spec.Or(*[I.truthy(i) for i in items]) if items else False


def b_all(I, x):
    items = I.concrete_items(x)
    if items is None:
        if isinstance(x, GenV) and isinstance(x.items, SymList):
            sl = x.items
            return spec.forall(0, sl.n, lambda k: I.truthy(sl.at(k)))
        raise Unsupported("all over symbolic iterable")
    return spec.And(*[I.truthy(i) for i in items]) if items else True


def b_sorted(I, x, key=None, reverse=False):
    h = getattr(x, "pyvc_sorted", None)
    if h is not None and key is None and not reverse:
        return h(I)
    items = I.concrete_items(x)
    if items is None or any(is_z3(i) for i in items):
        raise Unsupported("sorted over symbolic values")
    if key is not None:
        # concrete items, key function evaluated by the executor; only concrete keys can be ordered
        keys = [I.call(key, [i], {}) for i in items]
        if any(is_z3(k) for k in keys):
            # few items with symbolic integer keys: stable insertion sort, one path per outcome of each comparison
            if len(items) > 4 or not all(is_z3(k) and k.is_int() or isinstance(k, int) for k in keys):
                raise Unsupported("sorted with symbolic keys")
            order = []
            for i in range(len(items)):
                pos = len(order)
                while pos > 0:
                    kp, ki = keys[order[pos - 1]], keys[i]
                    before = (kp < ki) if reverse else (kp > ki)     # the new item goes in front of order[pos-1]
                    if I.path.branch(before):
                        pos -= 1
                    else:
                        break
                order.insert(pos, i)
            return [items[i] for i in order]
        try:
            return [i for _, i in sorted(zip(keys, range(len(items))), reverse=reverse) for i in [items[i]]]
        except TypeError:
            raise PyRaise(ExcVal("TypeError", ("unorderable",)))
    try:
        return sorted(items, reverse=reverse)
    except TypeError:
        raise PyRaise(ExcVal("TypeError", ("unorderable",)))


def b_isinstance(I, x, t):
    ts = t if isinstance(t, tuple) else (t,)
    res = False
    for tt in ts:
        if isinstance(tt, TypeTag):
            r = tt.check(x)
            if r is True:
                return True
            if r is not False:
                raise Unsupported(f"isinstance({type(x).__name__}, {tt.name}) undecided")
        elif isinstance(tt, ClassInfo):
            if isinstance(x, Obj) and isinstance(x.cls, ClassInfo) and x.cls.is_subclass(tt):
                return True
        elif isinstance(tt, ExcClass):
            if isinstance(x, ExcVal) and EXC_BASES is not None:
                from .values import exc_is
                if exc_is(x.cls, tt.name):
                    return True
        elif isinstance(tt, Opaque):
            tagcheck = getattr(x, "pyvc_isinstance", None)
            if tagcheck is not None and tagcheck(tt.tag):
                return True
            # an external class we do not model: plain python / symbolic scalars are not instances
            continue
        else:
            raise Unsupported(f"isinstance with {tt!r}")
    return res


def b_next(I, it, *default):
    if isinstance(it, GenV):
        items = it.items
        if isinstance(items, list):
            if it.pos < len(items):
                v = items[it.pos]
                it.pos += 1
                return v
            if default:
                return default[0]
            raise PyRaise(ExcVal("StopIteration", ()))
        if isinstance(items, SymList) and it.pos == 0:
            if I.path.branch(items.n > 0):
                it.pos += 1
                return items.at(z3.IntVal(0))
            if default:
                return default[0]
            raise PyRaise(ExcVal("StopIteration", ()))
    if isinstance(it, IterV):
        return it.next(I, default)
    raise Unsupported(f"next() on {type(it).__name__}")


class IterV:
    def __init__(self, items):
        self.items = items
        self.pos = 0

    def next(self, I, default):
        if isinstance(self.items, list):
            if self.pos < len(self.items):
                v = self.items[self.pos]
                self.pos += 1
                return v
            if default:
                return default[0]
            raise PyRaise(ExcVal("StopIteration", ()))
        raise Unsupported("next on symbolic iterator")


def b_iter(I, x):
    if isinstance(x, (GenV, IterV)):
        return x
    items = I.concrete_items(x)
    if items is not None:
        return IterV(items)
    h = getattr(x, "pyvc_iter", None)
    if h is not None:
        return h(I)
    raise Unsupported(f"iter() on {type(x).__name__}")


def b_slice(I, *a):
    if len(a) == 1:
        return SliceV(None, a[0], None)
    if len(a) == 2:
        return SliceV(a[0], a[1], None)
    return SliceV(a[0], a[1], a[2])


def b_map(I, fn, *its):
    if len(its) == 1:
        items = I.concrete_items(its[0])
        if items is not None:
            return GenV([I.call(fn, [x], {}) for x in items])
        c, f = I.sym_iter(its[0])
        return GenV(SymList(c, lambda k: I.call(fn, [f(k)], {})))
    raise Unsupported("map with several iterables")


def b_getattr(I, obj, name, *default):
    try:
        return I.getattr(obj, name)
    except PyRaise as e:
        if e.exc.cls == "AttributeError" and default:
            return default[0]
        raise


def b_hasattr(I, obj, name):
    try:
        I.getattr(obj, name)
        return True
    except PyRaise as e:
        if e.exc.cls == "AttributeError":
            return False
        raise
    except Unsupported:
        return False


def b_print(I, *a, **k):
    return None


def b_divmod(I, a, b):
    return (I.binop(ast.FloorDiv(), a, b), I.binop(ast.Mod(), a, b))


def b_reversed(I, x):
    items = I.concrete_items(x)
    if items is None:
        raise Unsupported("reversed symbolic")
    return list(reversed(items))


def b_type(I, x):
    if isinstance(x, Obj):
        return x.cls
    if isinstance(x, ExcVal):
        return ExcClass(x.cls)
    raise Unsupported("type()")


def b_round(I, x, nd=None):
    if isinstance(x, (int, float)):
        return round(x) if nd is None else round(x, nd)
    raise Unsupported("round symbolic")


def b_id(I, x):
    return id(x)


# -------------------------------------------------------------------- methods
def _m(fn):
    return LibFunc(fn.__name__, fn)


def builtin_getattr(I, obj, attr, node=None):
    if isinstance(obj, dict) and attr == "__getitem__":
        return _m(lambda I, k: obj[k])
    # ---- list
    if isinstance(obj, list):
        if attr == "append":
            return _m(lambda I, x: obj.append(x))
        if attr == "extend":
            def extend(I, xs):
                items = I.concrete_items(xs)
                if items is None:
                    raise Unsupported("list.extend with symbolic iterable")
                obj.extend(items)
            return _m(extend)
        if attr == "pop":
            def pop(I, i=-1):
                if not obj:
                    raise PyRaise(ExcVal("IndexError", ("pop from empty list",)))
                return obj.pop(i)
            return _m(pop)
        if attr == "index":
            def index(I, x):
                if is_z3(x) or any(is_z3(y) for y in obj):
                    for i, y in enumerate(obj):
                        if I.path.branch(I.compare(ast.Eq(), x, y)):
                            return i
                    raise PyRaise(ExcVal("ValueError", ("not in list",)))
                if x in obj:
                    return obj.index(x)
                raise PyRaise(ExcVal("ValueError", ("not in list",)))
            return _m(index)
        if attr == "copy":
            return _m(lambda I: list(obj))
        if attr == "insert":
            return _m(lambda I, i, x: obj.insert(i, x))
        if attr == "sort":
            def sort(I, **kw):
                if any(is_z3(y) for y in obj) or kw:
                    raise Unsupported("list.sort symbolic")
                obj.sort()
            return _m(sort)
        if attr == "remove":
            return _m(lambda I, x: obj.remove(x))
    if isinstance(obj, ConcatList):
        if attr == "append":
            def append(I, x):
                if not isinstance(x, Arr):
                    raise Unsupported("ConcatList.append of non-array")
                from .lib_numpy import arr_concat
                obj.flat = arr_concat([obj.flat, x])
                obj.count = obj.count + 1
            return _m(append)
    if isinstance(obj, SymList):
        if attr == "append":
            def sl_append(I, x):
                if hasattr(x, "pyvc_ite"):
                    # a structured element (stub object with symbolic fields): the element class merges field-wise
                    old_at, n = obj.at, obj.n
                    obj.at = lambda k: x.pyvc_ite(k < n, old_at(k), x)
                    obj.n = n + 1
                    return
                if not isinstance(x, (int, z3.ExprRef)):
                    raise Unsupported("SymList.append of a non-scalar")
                old_at, n, xv = obj.at, obj.n, to_term(x)
                obj.at = lambda k: z3.If(k < n, old_at(k), xv)
                obj.n = n + 1
            return _m(sl_append)
        if attr == "extend":
            def sl_extend(I, xs):
                from .lib_numpy import as_arr
                a = as_arr(I, xs)
                old_at, n, fa, m = obj.at, obj.n, a.at, a.n
                obj.at = lambda k: z3.If(k < n, old_at(k), fa(k - n))
                obj.n = n + m
            return _m(sl_extend)
    if isinstance(obj, SegList):
        if attr == "append":
            return _m(lambda I, x: obj.segs.append(("one", x)))
        if attr == "extend":
            return _m(lambda I, x: I.list_extend(obj, x) and None)
    if isinstance(obj, tuple):
        if attr == "index":
            return _m(lambda I, x: obj.index(x))
        if attr == "count":
            return _m(lambda I, x: obj.count(x))
    # ---- dict
    if isinstance(obj, dict):
        if attr == "get":
            def get(I, k, d=None):
                if is_z3(k):
                    for kk in obj:
                        if I.path.branch(I.compare(ast.Eq(), k, kk)):
                            return obj[kk]
                    return d
                return obj.get(k, d)
            return _m(get)
        if attr == "keys":
            return _m(lambda I: list(obj.keys()))
        if attr == "values":
            return _m(lambda I: list(obj.values()))
        if attr == "items":
            return _m(lambda I: [(k, v) for k, v in obj.items()])
        if attr == "update":
            def update(I, other=None, **kw):
                if other is not None:
                    if isinstance(other, dict):
                        obj.update(other)
                    else:
                        for k, v in I.iter_concrete(other):
                            obj[k] = v
                obj.update(kw)
            return _m(update)
        if attr == "pop":
            def pop(I, k, *d):
                if k in obj:
                    return obj.pop(k)
                if d:
                    return d[0]
                raise PyRaise(ExcVal("KeyError", (k,)))
            return _m(pop)
        if attr == "setdefault":
            return _m(lambda I, k, d=None: obj.setdefault(k, d))
        if attr == "copy":
            return _m(lambda I: dict(obj))
    if isinstance(obj, set):
        if attr == "add":
            return _m(lambda I, x: obj.add(x))
        if attr == "update":
            def update(I, xs):
                obj.update(I.iter_concrete(xs))
            return _m(update)
        if attr in ("issubset", "issuperset", "union", "intersection", "difference"):
            return _m(lambda I, o: getattr(obj, attr)(set(I.iter_concrete(o))))
    # ---- str
    if isinstance(obj, str):
        if attr in ("startswith", "endswith", "upper", "lower", "strip", "lstrip", "rstrip", "split",
                    "replace", "join", "format", "isdigit", "find", "rsplit", "partition", "rpartition",
                    "encode", "title", "count", "index"):
            def strm(I, *a, **k):
                if any(is_z3(x) for x in a):
                    from .strings import str_method
                    return str_method(I, z3.StringVal(obj), attr, a, k, node)
                if attr == "join":
                    items = I.iter_concrete(a[0])
                    if any(is_z3(x) for x in items):
                        out = None
                        for i, it in enumerate(items):
                            t = to_term(it)
                            if i:
                                out = z3.Concat(out, z3.StringVal(obj), t) if obj else z3.Concat(out, t)
                            else:
                                out = t
                        return out if out is not None else ""
                    if any(not isinstance(x, str) for x in items):
                        return Opaque("str.join")
                    return obj.join(items)
                try:
                    return getattr(obj, attr)(*a, **k)
                except ValueError:
                    raise PyRaise(ExcVal("ValueError", ("str." + attr,)))
                except (TypeError, IndexError, KeyError):
                    return Opaque("str." + attr)
            return _m(strm)
    if isinstance(obj, z3.SeqRef):
        from .strings import str_method
        return _m(lambda I, *a, **k: str_method(I, obj, attr, a, k, node))
    # ---- ints
    if isinstance(obj, (int, z3.ArithRef)) and not isinstance(obj, bool):
        if attr == "dtype":
            return DTypeV("int64")
        if attr == "item":
            return _m(lambda I: obj)
        if attr == "astype":
            return _m(lambda I, t=None: obj)
    if isinstance(obj, Arr):
        from .lib_numpy import arr_getattr
        return arr_getattr(I, obj, attr, node)
    if isinstance(obj, DTypeV):
        if attr == "type":
            return obj
        if attr == "kind":
            return {"int32": "i", "int64": "i", "float64": "f", "bool": "b"}.get(obj.name, "O")
        if attr == "name":
            return obj.name
    if isinstance(obj, ExcVal):
        if attr == "args":
            return obj.args
    if isinstance(obj, GenV):
        if attr == "__next__":
            return _m(lambda I: b_next(I, obj))
    if isinstance(obj, Closure):
        if attr == "__name__":
            return obj.qualname.split(".")[-1]
    h = getattr(obj, "pyvc_getattr", None)
    if h is not None:
        return h(I, attr, node)
    if isinstance(obj, Opaque):
        raise Unsupported(f"attribute {attr} of opaque {obj.tag}")
    if obj is None:
        raise PyRaise(ExcVal("AttributeError", (f"NoneType.{attr}",)))
    raise Unsupported(f"attribute {attr} of {type(obj).__name__}")


def install(engine):
    b = engine.builtins
    for name, fn in [("len", b_len), ("int", b_int), ("float", b_float), ("bool", b_bool), ("str", b_str),
                     ("range", b_range), ("zip", b_zip), ("enumerate", b_enumerate), ("tuple", b_tuple),
                     ("list", b_list), ("dict", b_dict), ("set", b_set), ("min", b_min), ("max", b_max),
                     ("abs", b_abs), ("sum", b_sum), ("any", b_any), ("all", b_all), ("sorted", b_sorted),
                     ("isinstance", b_isinstance), ("next", b_next), ("iter", b_iter), ("slice", b_slice),
                     ("map", b_map), ("getattr", b_getattr), ("hasattr", b_hasattr), ("print", b_print),
                     ("divmod", b_divmod), ("reversed", b_reversed), ("type", b_type), ("round", b_round),
                     ("id", b_id)]:
        b[name] = LibFunc(name, fn)
    # builtin types usable in isinstance and as constructors
    def mk(name, check, ctor):
        t = TypeTag(name, check, ctor)
        lf = b[name]
        # callable + type: make LibFunc carry the tag
        lf.typetag = t
        return lf
    b["int"].check = lambda x: is_intlike(x)
    b["str"].check = lambda x: is_strlike(x)
    b["bool"].check = lambda x: is_boollike(x)
    b["float"].check = lambda x: isinstance(x, (float, Quot, RealV)) or (isinstance(x, z3.ArithRef) and x.is_real())
    b["tuple"].check = lambda x: isinstance(x, tuple)
    b["list"].check = lambda x: isinstance(x, (list, SegList, SymList))
    b["dict"].check = lambda x: isinstance(x, dict)
    b["set"].check = lambda x: isinstance(x, set)
    b["slice"].check = lambda x: isinstance(x, SliceV)
    for name in list(EXC_BASES):
        b[name] = ExcClass(name)
    b["True"], b["False"], b["None"] = True, False, None
    b["NotImplemented"] = Opaque("NotImplemented")
    b["object"] = Opaque("object")
    b["__name__"] = "cooler"
    # typing names used at module level are irrelevant
    engine.lib["typing"] = LibNS("typing", {})
    engine.lib["__future__"] = LibNS("__future__", {})


# isinstance on LibFunc-with-check
_old_isinstance = b_isinstance


def b_isinstance2(I, x, t):
    ts = t if isinstance(t, tuple) else (t,)
    rest = []
    for tt in ts:
        if isinstance(tt, LibFunc) and hasattr(tt, "check"):
            if tt.check(x):
                return True
        elif isinstance(tt, LibNS):
            continue
        else:
            rest.append(tt)
    if rest:
        return _old_isinstance(I, x, tuple(rest))
    return False


b_isinstance = b_isinstance2


# ------------------------------------------------------------------ symbolic set abstraction
class SymSet:
    """a Python set of integers abstracted to (cardinality class, the element when it is a
    singleton): card == 0 empty, card == 1 exactly {elem}, card >= 2 at least two distinct
    elements.  Exact for programs that only update the set and compare len() with 0/1."""
    pyvc_symbolic = True

    def __init__(self, card, elem):
        self.card = card
        self.elem = elem

    @staticmethod
    def empty():
        return SymSet(z3.IntVal(0), z3.IntVal(0))

    def pyvc_len(self, I):
        return self.card

    def pyvc_truthy(self, I):
        return self.card > 0

    def pyvc_havoc(self, I, nm):
        c = I.path.fresh_int(nm + ".card")
        I.path.assume(c >= 0)
        return SymSet(c, I.path.fresh_int(nm + ".elem"))

    def pyvc_iter(self, I):
        return _SymSetIter(self)

    def pyvc_getattr(self, I, attr, node):
        if attr == "update":
            return LibFunc("set.update", lambda I, xs: self.update(I, xs))
        if attr == "add":
            from .values import Arr as _Arr
            return LibFunc("set.add", lambda I, x: self.update(I, _Arr(1, lambda k: to_term(x), "int")))
        raise Unsupported("set." + attr + " on a symbolic set")

    def update(self, I, xs):
        from .lib_numpy import as_arr
        u = as_arr(I, xs)
        p = I.path
        card, elem = self.card, self.elem
        c2 = p.fresh_int("set.card")
        e2 = p.fresh_int("set.elem")
        u0 = u.at(z3.IntVal(0))
        same0 = spec.forall(0, u.n, lambda k: u.at(k) == u0)
        samee = spec.forall(0, u.n, lambda k: u.at(k) == elem)
        p.assume(z3.And(c2 >= card, c2 >= 0))
        p.assume(z3.Implies(u.n == 0, z3.And(c2 == card, e2 == elem)))
        p.assume(z3.Implies(z3.And(u.n > 0, card == 0),
                            z3.And(z3.Implies(same0, c2 == 1), z3.Implies(z3.Not(same0), c2 >= 2), e2 == u0)))
        p.assume(z3.Implies(z3.And(u.n > 0, card == 1),
                            z3.And(z3.Implies(samee, z3.And(c2 == 1, e2 == elem)), z3.Implies(z3.Not(samee), c2 >= 2))))
        p.assume(z3.Implies(card >= 2, c2 >= 2))
        # consequences of the clauses above, spelled out in directly usable form
        p.assume(z3.Implies(c2 == 1, spec.forall(0, u.n, lambda k: u.at(k) == e2)))
        p.assume(z3.Implies(z3.And(c2 == 1, card == 1), e2 == elem))
        p.assume(z3.Implies(c2 == 0, z3.And(u.n == 0, card == 0)))
        self.card, self.elem = c2, e2
        return None


class _SymSetIter(IterV):
    def __init__(self, s):
        self.s = s
        self.pos = 0

    def next(self, I, default):
        if self.pos == 0:
            self.pos = 1
            if I.path.branch(self.s.card > 0):
                if I.path.branch(self.s.card == 1):
                    return self.s.elem
                return I.path.fresh_int("set.some")
            if default:
                return default[0]
            raise PyRaise(ExcVal("StopIteration", ()))
        raise Unsupported("second next() on a symbolic set iterator")
